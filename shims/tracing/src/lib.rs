//! Verification shim for `tracing`: the five event macros expand to nothing
//! observable. Arguments are wrapped in a never-called closure so that they
//! still type-check and count as "used", but no formatting code is reachable.
#[macro_export]
macro_rules! __verif_noop {
    ($($arg:tt)*) => {{
        let _ = || {
            let _ = ::core::format_args!($($arg)*);
        };
    }};
}
#[macro_export]
macro_rules! trace { ($($arg:tt)*) => { $crate::__verif_noop!($($arg)*) }; }
#[macro_export]
macro_rules! debug { ($($arg:tt)*) => { $crate::__verif_noop!($($arg)*) }; }
#[macro_export]
macro_rules! info { ($($arg:tt)*) => { $crate::__verif_noop!($($arg)*) }; }
#[macro_export]
macro_rules! warn { ($($arg:tt)*) => { $crate::__verif_noop!($($arg)*) }; }
#[macro_export]
macro_rules! error { ($($arg:tt)*) => { $crate::__verif_noop!($($arg)*) }; }
