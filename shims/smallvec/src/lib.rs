//! Verification shim for `smallvec` (API subset used by the `hpo` crate).
//!
//! A fixed inline array of `CAP` slots plus a length. No heap, no unsafe,
//! element-wise moves with loops whose trip counts are bounded by `CAP`
//! (so CBMC sees bounded loops instead of a symbolic-length `ptr::copy`
//! over smallvec's inline/heap union).
//!
//! The capacity is fixed (default 6) independent of the array type
//! parameter; exceeding it calls `shim_capacity_exceeded()` which panics
//! with a dedicated message the driver recognises as "bound exceeded"
//! (an infrastructure outcome, never a property violation).
use core::ops::{Deref, DerefMut};

/// inline capacity of the shim
pub const CAP: usize = 6;

pub unsafe trait Array {
    type Item;
}
unsafe impl<T, const N: usize> Array for [T; N] {
    type Item = T;
}

pub struct SmallVec<A: Array>
where
    A::Item: Copy,
{
    len: usize,
    data: [A::Item; CAP],
}

#[inline(never)]
fn shim_capacity_exceeded() -> ! {
    panic!("VERIF-SHIM: smallvec shim capacity exceeded");
}

impl<A: Array> SmallVec<A>
where
    A::Item: Copy,
{
    pub fn new() -> Self {
        Self {
            len: 0,
            // The only instantiation in hpo is `[HpoTermId; N]` (a `u32` newtype), for which the
            // all-zero bit pattern is valid; slots >= len are never exposed.
            data: [unsafe { core::mem::zeroed() }; CAP],
        }
    }
    pub fn with_capacity(_n: usize) -> Self {
        Self::new()
    }
    pub fn len(&self) -> usize {
        self.len
    }
    pub fn is_empty(&self) -> bool {
        self.len == 0
    }
    pub fn clear(&mut self) {
        self.len = 0;
    }
    pub fn push(&mut self, v: A::Item) {
        if self.len >= CAP {
            shim_capacity_exceeded();
        }
        self.data[self.len] = v;
        self.len += 1;
    }
    pub fn insert(&mut self, index: usize, v: A::Item) {
        assert!(index <= self.len, "insertion index out of bounds");
        if self.len >= CAP {
            shim_capacity_exceeded();
        }
        let mut i = self.len;
        while i > index {
            self.data[i] = self.data[i - 1];
            i -= 1;
        }
        self.data[index] = v;
        self.len += 1;
    }
    pub fn from_vec(v: Vec<A::Item>) -> Self {
        Self::from_slice(&v)
    }
    pub fn from_slice(v: &[A::Item]) -> Self {
        let mut s = Self::new();
        let mut i = 0;
        while i < v.len() {
            s.push(v[i]);
            i += 1;
        }
        s
    }
    pub fn capacity(&self) -> usize {
        CAP
    }
    pub fn reserve(&mut self, _n: usize) {}
    pub fn shrink_to_fit(&mut self) {}
    pub fn pop(&mut self) -> Option<A::Item> {
        if self.len == 0 {
            None
        } else {
            self.len -= 1;
            Some(self.data[self.len])
        }
    }
    pub fn truncate(&mut self, n: usize) {
        if n < self.len {
            self.len = n;
        }
    }
    pub fn remove(&mut self, index: usize) -> A::Item {
        assert!(index < self.len, "removal index out of bounds");
        let v = self.data[index];
        let mut i = index;
        while i + 1 < self.len {
            self.data[i] = self.data[i + 1];
            i += 1;
        }
        self.len -= 1;
        v
    }
    pub fn swap_remove(&mut self, index: usize) -> A::Item {
        assert!(index < self.len, "removal index out of bounds");
        let v = self.data[index];
        self.len -= 1;
        self.data[index] = self.data[self.len];
        v
    }
    pub fn retain<F: FnMut(&mut A::Item) -> bool>(&mut self, mut f: F) {
        let mut w = 0;
        let mut r = 0;
        while r < self.len {
            let mut x = self.data[r];
            if f(&mut x) {
                self.data[w] = x;
                w += 1;
            }
            r += 1;
        }
        self.len = w;
    }
    pub fn dedup(&mut self)
    where
        A::Item: PartialEq,
    {
        let mut w = 0;
        let mut r = 0;
        while r < self.len {
            if w == 0 || self.data[w - 1] != self.data[r] {
                self.data[w] = self.data[r];
                w += 1;
            }
            r += 1;
        }
        self.len = w;
    }
    pub fn extend_from_slice(&mut self, v: &[A::Item]) {
        let mut i = 0;
        while i < v.len() {
            self.push(v[i]);
            i += 1;
        }
    }
    pub fn insert_from_slice(&mut self, index: usize, v: &[A::Item]) {
        let mut i = 0;
        while i < v.len() {
            self.insert(index + i, v[i]);
            i += 1;
        }
    }
    pub fn into_vec(self) -> Vec<A::Item> {
        self.to_vec()
    }
    pub fn first(&self) -> Option<&A::Item> {
        self.as_slice().first()
    }
    pub fn last(&self) -> Option<&A::Item> {
        self.as_slice().last()
    }
    pub fn as_slice(&self) -> &[A::Item] {
        &self.data[..self.len]
    }
    pub fn as_mut_slice(&mut self) -> &mut [A::Item] {
        &mut self.data[..self.len]
    }
    pub fn to_vec(&self) -> Vec<A::Item> {
        self.as_slice().to_vec()
    }
    pub fn iter(&self) -> core::slice::Iter<'_, A::Item> {
        self.as_slice().iter()
    }
}

impl<A: Array> Deref for SmallVec<A>
where
    A::Item: Copy,
{
    type Target = [A::Item];
    fn deref(&self) -> &[A::Item] {
        self.as_slice()
    }
}
impl<A: Array> DerefMut for SmallVec<A>
where
    A::Item: Copy,
{
    fn deref_mut(&mut self) -> &mut [A::Item] {
        self.as_mut_slice()
    }
}
impl<A: Array> Default for SmallVec<A>
where
    A::Item: Copy,
{
    fn default() -> Self {
        Self::new()
    }
}
impl<A: Array> Clone for SmallVec<A>
where
    A::Item: Copy,
{
    fn clone(&self) -> Self {
        Self {
            len: self.len,
            data: self.data,
        }
    }
}
impl<A: Array> core::fmt::Debug for SmallVec<A>
where
    A::Item: Copy,
{
    fn fmt(&self, _f: &mut core::fmt::Formatter<'_>) -> core::fmt::Result {
        Ok(())
    }
}
impl<A: Array> core::hash::Hash for SmallVec<A>
where
    A::Item: Copy + core::hash::Hash,
{
    fn hash<H: core::hash::Hasher>(&self, state: &mut H) {
        self.as_slice().hash(state);
    }
}
impl<'a, A: Array> IntoIterator for &'a SmallVec<A>
where
    A::Item: Copy,
{
    type Item = &'a A::Item;
    type IntoIter = core::slice::Iter<'a, A::Item>;
    fn into_iter(self) -> Self::IntoIter {
        self.as_slice().iter()
    }
}

impl<A: Array> Extend<A::Item> for SmallVec<A>
where
    A::Item: Copy,
{
    fn extend<I: IntoIterator<Item = A::Item>>(&mut self, iter: I) {
        for x in iter {
            self.push(x);
        }
    }
}
impl<A: Array> core::iter::FromIterator<A::Item> for SmallVec<A>
where
    A::Item: Copy,
{
    fn from_iter<I: IntoIterator<Item = A::Item>>(iter: I) -> Self {
        let mut s = Self::new();
        for x in iter {
            s.push(x);
        }
        s
    }
}
impl<A: Array> From<Vec<A::Item>> for SmallVec<A>
where
    A::Item: Copy,
{
    fn from(v: Vec<A::Item>) -> Self {
        Self::from_vec(v)
    }
}
impl<'a, A: Array> From<&'a [A::Item]> for SmallVec<A>
where
    A::Item: Copy,
{
    fn from(v: &'a [A::Item]) -> Self {
        Self::from_slice(v)
    }
}
impl<A: Array> PartialEq for SmallVec<A>
where
    A::Item: Copy + PartialEq,
{
    fn eq(&self, other: &Self) -> bool {
        self.as_slice() == other.as_slice()
    }
}
impl<A: Array> Eq for SmallVec<A> where A::Item: Copy + Eq {}
impl<A: Array> IntoIterator for SmallVec<A>
where
    A::Item: Copy,
{
    type Item = A::Item;
    type IntoIter = std::vec::IntoIter<A::Item>;
    fn into_iter(self) -> Self::IntoIter {
        self.to_vec().into_iter()
    }
}
/// `smallvec![a, b, c]`
#[macro_export]
macro_rules! smallvec {
    ($($x:expr),* $(,)?) => {{
        let mut s = $crate::SmallVec::new();
        $( s.push($x); )*
        s
    }};
}
