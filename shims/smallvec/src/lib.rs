//! Verification shim for `smallvec` (API subset used by the `hpo` crate).
//!
//! A fixed inline array of `CAP` slots plus a length. No heap, no unsafe,
//! element-wise moves with loops whose trip counts are bounded by `CAP`
//! (so CBMC sees bounded loops instead of a symbolic-length `ptr::copy`
//! over smallvec's inline/heap union).
//!
//! The capacity is fixed (default 6) independent of the array type
//! parameter; exceeding it calls `shim_capacity_exceeded()` which panics
//! with a dedicated message the driver recognises as "bound exceeded"
//! (an infrastructure outcome, never a property violation).
use core::ops::{Deref, DerefMut};

/// inline capacity of the shim
pub const CAP: usize = 6;

pub unsafe trait Array {
    type Item;
}
unsafe impl<T, const N: usize> Array for [T; N] {
    type Item = T;
}

pub struct SmallVec<A: Array>
where
    A::Item: Copy,
{
    len: usize,
    data: [A::Item; CAP],
}

#[inline(never)]
fn shim_capacity_exceeded() -> ! {
    panic!("VERIF-SHIM: smallvec shim capacity exceeded");
}

impl<A: Array> SmallVec<A>
where
    A::Item: Copy,
{
    pub fn new() -> Self {
        Self {
            len: 0,
            // The only instantiation in hpo is `[HpoTermId; N]` (a `u32` newtype), for which the
            // all-zero bit pattern is valid; slots >= len are never exposed.
            data: [unsafe { core::mem::zeroed() }; CAP],
        }
    }
    pub fn with_capacity(_n: usize) -> Self {
        Self::new()
    }
    pub fn len(&self) -> usize {
        self.len
    }
    pub fn is_empty(&self) -> bool {
        self.len == 0
    }
    pub fn clear(&mut self) {
        self.len = 0;
    }
    pub fn push(&mut self, v: A::Item) {
        if self.len >= CAP {
            shim_capacity_exceeded();
        }
        self.data[self.len] = v;
        self.len += 1;
    }
    pub fn insert(&mut self, index: usize, v: A::Item) {
        assert!(index <= self.len, "insertion index out of bounds");
        if self.len >= CAP {
            shim_capacity_exceeded();
        }
        let mut i = self.len;
        while i > index {
            self.data[i] = self.data[i - 1];
            i -= 1;
        }
        self.data[index] = v;
        self.len += 1;
    }
    pub fn as_slice(&self) -> &[A::Item] {
        &self.data[..self.len]
    }
    pub fn as_mut_slice(&mut self) -> &mut [A::Item] {
        &mut self.data[..self.len]
    }
    pub fn to_vec(&self) -> Vec<A::Item> {
        self.as_slice().to_vec()
    }
    pub fn iter(&self) -> core::slice::Iter<'_, A::Item> {
        self.as_slice().iter()
    }
}

impl<A: Array> Deref for SmallVec<A>
where
    A::Item: Copy,
{
    type Target = [A::Item];
    fn deref(&self) -> &[A::Item] {
        self.as_slice()
    }
}
impl<A: Array> DerefMut for SmallVec<A>
where
    A::Item: Copy,
{
    fn deref_mut(&mut self) -> &mut [A::Item] {
        self.as_mut_slice()
    }
}
impl<A: Array> Default for SmallVec<A>
where
    A::Item: Copy,
{
    fn default() -> Self {
        Self::new()
    }
}
impl<A: Array> Clone for SmallVec<A>
where
    A::Item: Copy,
{
    fn clone(&self) -> Self {
        Self {
            len: self.len,
            data: self.data,
        }
    }
}
impl<A: Array> core::fmt::Debug for SmallVec<A>
where
    A::Item: Copy,
{
    fn fmt(&self, _f: &mut core::fmt::Formatter<'_>) -> core::fmt::Result {
        Ok(())
    }
}
impl<A: Array> core::hash::Hash for SmallVec<A>
where
    A::Item: Copy + core::hash::Hash,
{
    fn hash<H: core::hash::Hasher>(&self, state: &mut H) {
        self.as_slice().hash(state);
    }
}
impl<'a, A: Array> IntoIterator for &'a SmallVec<A>
where
    A::Item: Copy,
{
    type Item = &'a A::Item;
    type IntoIter = core::slice::Iter<'a, A::Item>;
    fn into_iter(self) -> Self::IntoIter {
        self.as_slice().iter()
    }
}
