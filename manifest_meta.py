HOOK_COMMITS = ["14ff103"]
NOTES = ("All claims are bounded (shape concrete, content symbolic); bounds, stubs and what lies outside are in DESIGN.md §5 "
         "and repeated in every evidence file. exit 2 = infrastructure/inconclusive, never reported as pass or violation.")
TB = ("Trusted: Kani 0.68/CBMC 6.11 translation of the pinned nightly std (dev profile); smallvec replaced by an inline-array shim "
      "(capacity 6) and tracing by empty macros during solving - counterexamples are replayed on the real crates before being reported.")
CLAIMED = {
    "C20": dict(
        text="Solver decides, for every valid UTF-8 string of 0..=8 bytes (quick 0..=6) and 'HP:'+7/10/11 arbitrary bytes, that "
             "HpoTermId::try_from never panics and returns Ok(v) iff the text after byte 3 is an unsigned 32-bit decimal (value exact); "
             "byte/integer conversions are mutually inverse for all u32. Bounded model checking is the right level: the parser is a "
             "small loop-per-byte kernel whose rare failing inputs (multi-byte char straddling offset 3, overflow border) the solver finds directly.",
        note=TB + " Display/to_string for symbolic ids is outside the claim (core::fmt is out of CBMC's reach); strings > 14 bytes outside."),
}
NOT_APPLICABLE = {
    "C02": "observable state is membership in std HashSet/HashMap per term; symbolic membership in hashbrown does not finish symbolic execution (DESIGN §1, §5)",
    "C09": "entry points go through File::open/read_to_string/BufReader (not modelled by Kani) and string splitting over >=22-byte lines with symbolic lengths; out of CBMC reach (DESIGN §5)",
    "C11": "recursive distance/path functions over the arena for all DAG shapes: 3-4 terms did not finish in 45 min (DESIGN §1, §5)",
    "C14": "sub_ontology = HashSet + full Builder pipeline + hash-map scans; no separately callable part, pipeline does not finish on 3 terms",
    "C16": "metamorphic relation between two whole constructions; one construction is already out of reach",
}
# properties whose harnesses are not built yet are listed as not (yet) claimed
PENDING = ["C01", "C03", "C04", "C05", "C06", "C07", "C08", "C10", "C12", "C13", "C15", "C17", "C18", "C19"]
for p in PENDING:
    if p not in CLAIMED:
        NOT_APPLICABLE[p] = "not claimed yet: harnesses under construction (planned in DESIGN.md §5)"
