HOOK_COMMITS = ["14ff103", "c4cde07"]
FIX_COMMITS = ["93d05da", "cf94d03", "10032fa"]
NOTES = ("Defects found by the checks and repaired in /repo as separate 'fix:' commits: 93d05da (C20), cf94d03 (C15), 10032fa (C04); see known_findings.txt. "
         "Seeded-change evaluation: /verif/seeded and DESIGN.md section 8. All claims are bounded (shape concrete, content symbolic); bounds, stubs and what lies outside are in DESIGN.md §5 "
         "and repeated in every evidence file. exit 2 = infrastructure/inconclusive, never reported as pass or violation.")
TB = ("Trusted: Kani 0.68/CBMC 6.11 translation of the pinned nightly std (dev profile); smallvec replaced by an inline-array shim "
      "(capacity 6) and tracing by empty macros during solving - counterexamples are replayed on the real crates before being reported.")
CLAIMED = {
    "C20": dict(
        text="Solver decides, for every valid UTF-8 string of 0..=8 bytes and 'HP:'+7/10/11 arbitrary bytes, that "
             "HpoTermId::try_from never panics and returns Ok(v) iff the text after byte 3 is an unsigned 32-bit decimal (value exact); "
             "byte/integer conversions are mutually inverse for all u32. Bounded model checking is the right level: the parser is a "
             "small loop-per-byte kernel whose rare failing inputs (multi-byte char straddling offset 3, overflow border) the solver finds directly.",
        note=TB + " Display/to_string only on 7 concrete border ids (core::fmt on a symbolic integer is out of CBMC's reach); strings > 14 bytes outside."),
    "C12": dict(
        text="HpoGroup insertion (<= 5 arbitrary u32, plus one inductive insert step from any sorted group), constructors, |, &, + id over all subset pairs "
             "of a strictly ascending symbolic-u32 universe of 3/4/6 ids, and the four ancestor-set queries of HpoTerm (own ids any u32) are decided exactly "
             "against bit-mask set algebra. One-step/small-universe model checking fits: the code is a merge loop and a length-dependent scan whose bugs need "
             "specific operand relations (equal length, touching ranges, duplicates).",
        note=TB + " Groups larger than 6 ids (shim capacity), smallvec's inline->heap switch at 30 and From<HashSet> are outside."),
    "C10": dict(
        text="The term table (Arena) is decided to be an exact map: inserts with symbolic ids observed through the private table, lookup with ANY u32 key on a table "
             "holding ids {0,3,9}, iteration/len/keys/values, unchecked accessors - on an id table of 16 entries instead of 10^7.",
        note=TB + " The real 10^7-entry table, gene/disease HashMap lookups and the name searches are outside (DESIGN §5 C10)."),
    "C19": dict(
        text="set_default_modifier / set_default_categories on direct-state ontologies (children sets symbolic, root presence per instance) and "
             "HpoTerm::is_modifier / categories for a term with arbitrary own id and symbolic ancestor / root / category sets are decided exactly.",
        note=TB + " Ancestor closure is taken as given (C01); > 4 top-level branches outside; arena replaced by a direct small arena."),
    "C06": dict(
        text="Integer wiring of the hypergeometric tail: for all K,n <= N <= 6 and x <= 7 sf(x) sums exactly the terms i in (x, min(K,n)] with binomials "
             "(K,i),(N-K,n-i),(N,n) in order, is exactly 1 below and 0 at/above the support; ln_binomial / ln_factorial structure and the 170/171 table switch; "
             "Hypergeometric::new rejects exactly K>N or n>N (all u64). Decided with recording stubs for libm-dependent functions.",
        note=TB + " All numeric statements (value of the tail probability, [0,1], monotonicity, Lanczos accuracy) and the enrichment record assembly over hash maps are outside."),
    "C05": dict(
        text="Matrix row/column views (all contents, dims up to 3x3) and the three StandardCombiners for every dimension in {1,2,3}^2 on the exact grid k/8 are decided "
             "bit-exactly against the documented formulas (row vs column maxima, divisors r, c, r+c), empty matrix => 0.",
        note=TB + " Entries off the k/8 grid, matrices > 3x3, GroupSimilarity over HpoSets and CachedSimilarity (hash map) are outside."),
    "C03": dict(
        text="InformationContent kernel: zero rule, -ln(current/total) structure bit-exact with ln stubbed by a monotone model, only the addressed kind written, "
             "error border at u16::MAX with unchanged value on error, monotonicity in current; get_kind dispatch for all f32.",
        note=TB + " libm's ln numerics and the Builder wiring (record count / per-term set size per kind: hash containers) are outside."),
    "C07": dict(
        text="Every record encoder (gene, OMIM own impl, ORPHA trait default, term, parent list, file header) and decoder is decided equal to the documented byte layout "
             "for concrete shapes (name 0-3 bytes, 0-2 terms) with all content symbolic; together they give the per-record round trip. The 255-byte name cap is probed with a symbolic character at the cut.",
        note=TB + " Whole-file as_bytes/from_bytes (section assembly, builder replay, IC recomputation), names > 3 bytes except the cap probe, > 2 terms are outside."),
    "C08": dict(
        text="Header/version detection for every byte string of 0/4/5/8 bytes and all 256 version bytes, release-date header for v1-v3, v1 and v2 term layouts, and rejection of "
             "truncated / extended / mis-announced gene, disease and term records (every slice length for the smallest shapes, +-1..4 for others; total and n_terms fields any u32).",
        note=TB + " The section walk of Ontology::from_bytes (whole-file truncation offsets, record order independence) is outside."),
    "C17": dict(
        text="Combinations: one next() from every concrete cursor position reachable from new()/set_to_last() over 0..=4 slots with a symbolic dead/live pattern returns the next live pair and "
             "advances exactly behind it (one-step induction); exhausted stays exhausted; Linkage size bookkeeping and leaf order on directly built dendrograms.",
        note=TB + " The merge loops of Linkage::{single,complete,average,union} (HashMap distance matrix) are outside; the induction over cursor positions is an argument, not a solver query."),
}
CLAIMED.update({
    "C01": dict(
        text="One-step obligations of the ancestor closure: add_parent / add_parent_unchecked record exactly the two inverse links; create_cache_of_grandparents from a state whose parents are cached "
             "(0-2 parents, 0-2 ancestors each with arbitrary u32 ids, diamonds included, plus one recursive level) yields exactly parents + their ancestors, never the term itself; "
             "parents_cached truth table; child_of / parent_of / *_ids answer exactly from the stored closure.",
        note=TB + " That connect_all_terms composes the steps for every DAG shape and insertion order, and the obo/binary/sub_ontology paths, are outside (an argument, not a solver query)."),
    "C04": dict(
        text="Resnik, Lin, JC, Relevance, IC-coefficient, GraphIC on a fixed 4-term ontology for sibling / ancestor / identical / root pairs with all four information contents symbolic on the grid k/8 "
             "(129^4 combinations): bit-equal to the formula, symmetric, finite, >= 0, never NaN; Mutation with empty annotation sets (1 for identical, 0 otherwise, never NaN); Builtins dispatch.",
        note=TB + " Distance, Mutation with non-empty sets, other DAG shapes and off-grid IC values are outside; exp is a deterministic model; GraphIC's denominator accepted with or without the terms themselves."),
    "C13": dict(
        text="HpoSet::child_nodes, without/remove_obsolete, with_replaced/replace_obsolete, accessors (quick) and without/remove_modifier (thorough) on a direct-state 3-term ontology with symbolic ancestor ids, "
             "obsolete flags, replacement ids (any u32) and modifier roots: exact member sets, in-place == copying.",
        note=TB + " Hash-container aggregates (gene/disease id unions, categories(), information_content()), sets > 3 members and symbolic membership are outside."),
    "C15": dict(
        text="Builder::add_parent for all four presence combinations of parent/child id with symbolic pre-existing relation groups: Ok iff both exist, a rejected call changes no group of any term; "
             "annotate_gene on a present term creates exactly one record and one link of that kind.",
        note=TB + " One call from a symbolic pre-state per harness (not call sequences); annotate_* with an ABSENT term (suspected defect D3) does not finish symbolic execution and is not claimed."),
    "C18": dict(
        text="AnnotationDelta::delta over all subset pairs of a symbolic-id universe (2 quick / 3 thorough) and names in {a,b}: Some iff something differs; added = new minus old, removed = old minus new as exact "
             "ascending lists; n_terms; accessor conventions; argument swap swaps added/removed.",
        note=TB + " HpoTermDelta::new (HashSets), the enumeration over two whole ontologies, and comparison with a binary round trip are outside."),
})
NOT_APPLICABLE = {
    "C02": "observable state is membership in std HashSet/HashMap per term; symbolic membership in hashbrown does not finish symbolic execution (DESIGN §1, §5)",
    "C09": "entry points go through File::open/read_to_string/BufReader (not modelled by Kani) and string splitting over >=22-byte lines with symbolic lengths; out of CBMC reach (DESIGN §5)",
    "C11": "recursive distance/path functions over the arena for all DAG shapes: 3-4 terms did not finish in 45 min (DESIGN §1, §5)",
    "C14": "sub_ontology = HashSet + full Builder pipeline + hash-map scans; no separately callable part, pipeline does not finish on 3 terms",
    "C16": "metamorphic relation between two whole constructions; one construction is already out of reach",
}
# properties whose harnesses are not built yet are listed as not (yet) claimed
PENDING = []
for p in PENDING:
    if p not in CLAIMED:
        NOT_APPLICABLE[p] = "not claimed yet: harnesses under construction (planned in DESIGN.md §5)"
