//! C07/C08 — the term record, layouts v1 and v2/v3 (compiled inside `hpo::parser::binary::term`).
//! v2: total_len u32 BE | id u32 BE | name_len u8 | name | flags u8 (bit0 = obsolete) | replacement u32 BE (0 = none)
//! v1: total_len u32 BE | id u32 BE | name_len u8 | name (= bytes 9..total_len)
use super::*;
#[allow(unused_imports)]
use crate::annotations::AnnotationId as _;
use crate::ontology::verif_kani::stub_random_state;
use crate::parser::binary::BinaryVersion;

fn be(b: &[u8], at: usize) -> u32 {
    ((b[at] as u32) << 24) | ((b[at + 1] as u32) << 16) | ((b[at + 2] as u32) << 8) | b[at + 3] as u32
}
fn put(b: &mut [u8], at: usize, v: u32) {
    b[at] = (v >> 24) as u8;
    b[at + 1] = (v >> 16) as u8;
    b[at + 2] = (v >> 8) as u8;
    b[at + 3] = v as u8;
}

/// v2/v3 term record of NAME name bytes; every content byte symbolic. Decoded through the
/// version dispatch `HpoTermInternal::try_from(Bytes)` for V2 and V3.
fn decode_v2<const NAME: usize, const L: usize>(v3: bool) {
    assert!(L == 14 + NAME);
    let mut buf: [u8; L] = kani::any();
    put(&mut buf, 0, L as u32);
    buf[8] = NAME as u8;
    let version = if v3 { BinaryVersion::V3 } else { BinaryVersion::V2 };
    let r = HpoTermInternal::try_from(Bytes::new(&buf[..], version));
    let name_ok = core::str::from_utf8(&buf[9..9 + NAME]).is_ok();
    match &r {
        Ok(t) => {
            assert!(name_ok);
            assert!(t.id().as_u32() == be(&buf, 4), "term id = bytes 4..8 big-endian");
            let nb = t.name().as_bytes();
            assert!(nb.len() == NAME);
            let mut i = 0;
            while i < NAME {
                assert!(nb[i] == buf[9 + i], "name bytes preserved");
                i += 1;
            }
            assert!(t.obsolete() == (buf[9 + NAME] & 1 == 1), "obsolete = bit 0 of the flags byte");
            let rep = be(&buf, 10 + NAME);
            match t.replacement() {
                Some(x) => assert!(rep != 0 && x.as_u32() == rep, "replacement id"),
                None => assert!(rep == 0, "0 means no replacement"),
            }
            assert!(t.parents().is_empty() && t.children().is_empty() && t.all_parents().is_empty());
            kani::cover!(t.obsolete() && t.replacement().is_some(), "obsolete term with replacement");
            kani::cover!(buf[9 + NAME] == 2, "unknown flag bit set, not obsolete");
        }
        Err(_) => {
            assert!(!name_ok, "a well-formed record is accepted");
            kani::cover!(NAME > 0, "opt: invalid UTF-8 name rejected");
        }
    }
    core::mem::forget(r);
}

#[kani::proof]
#[kani::stub(std::hash::RandomState::new, stub_random_state)]
#[kani::unwind(8)]
fn c07_term_decode_v2_n0() {
    decode_v2::<0, 14>(false);
}
#[kani::proof]
#[kani::stub(std::hash::RandomState::new, stub_random_state)]
#[kani::unwind(8)]
fn c07_term_decode_v2_n1() {
    decode_v2::<1, 15>(false);
}
#[kani::proof]
#[kani::stub(std::hash::RandomState::new, stub_random_state)]
#[kani::unwind(8)]
fn c07_term_decode_v3_n3() {
    decode_v2::<3, 17>(true);
}

/// v1 record: no flags, no replacement; the name is everything after byte 9
fn decode_v1<const NAME: usize, const L: usize>() {
    assert!(L == 9 + NAME);
    let mut buf: [u8; L] = kani::any();
    put(&mut buf, 0, L as u32);
    buf[8] = NAME as u8;
    let r = HpoTermInternal::try_from(Bytes::new(&buf[..], BinaryVersion::V1));
    let name_ok = core::str::from_utf8(&buf[9..9 + NAME]).is_ok();
    match &r {
        Ok(t) => {
            assert!(name_ok);
            assert!(t.id().as_u32() == be(&buf, 4));
            let nb = t.name().as_bytes();
            assert!(nb.len() == NAME);
            let mut i = 0;
            while i < NAME {
                assert!(nb[i] == buf[9 + i]);
                i += 1;
            }
            assert!(!t.obsolete() && t.replacement().is_none(), "v1 carries no obsolete flag and no replacement");
            kani::cover!(true, "v1 record accepted");
        }
        Err(_) => {
            assert!(!name_ok);
            kani::cover!(NAME > 0, "opt: invalid UTF-8 name rejected");
        }
    }
    core::mem::forget(r);
}

#[kani::proof]
#[kani::stub(std::hash::RandomState::new, stub_random_state)]
#[kani::unwind(8)]
fn c08_term_decode_v1_n0() {
    decode_v1::<0, 9>();
}
#[kani::proof]
#[kani::stub(std::hash::RandomState::new, stub_random_state)]
#[kani::unwind(8)]
fn c08_term_decode_v1_n2() {
    decode_v1::<2, 11>();
}

/// truncated v2 record (announced name length NAME, fewer bytes present): error, never a term
fn truncated_v2<const NAME: usize, const L: usize>() {
    assert!(L == 14 + NAME);
    let mut buf: [u8; L] = kani::any();
    buf[8] = NAME as u8;
    let mut len = 0;
    while len < L {
        let r = from_bytes_v2(Bytes::new(&buf[..len], BinaryVersion::V2));
        let ok = r.is_ok();
        core::mem::forget(r);
        assert!(!ok, "truncated term record must be rejected");
        len += 1;
    }
    kani::cover!(true, "all prefixes rejected");
}

#[kani::proof]
#[kani::stub(std::hash::RandomState::new, stub_random_state)]
#[kani::unwind(20)]
fn c08_term_truncated_v2_n2() {
    truncated_v2::<2, 16>();
}

/// truncated v1 record
#[kani::proof]
#[kani::stub(std::hash::RandomState::new, stub_random_state)]
#[kani::unwind(16)]
fn c08_term_truncated_v1_n2() {
    let mut buf: [u8; 11] = kani::any();
    put(&mut buf, 0, 11);
    buf[8] = 2;
    let mut len = 0;
    while len < 11 {
        let r = from_bytes_v1(Bytes::new(&buf[..len], BinaryVersion::V1));
        let ok = r.is_ok();
        core::mem::forget(r);
        assert!(!ok, "truncated v1 term record must be rejected");
        len += 1;
    }
    kani::cover!(true, "all prefixes rejected");
}

#[kani::proof]
#[kani::stub(std::hash::RandomState::new, stub_random_state)]
#[kani::unwind(8)]
fn c08_term_twin_must_fail() {
    decode_v1::<2, 11>();
    assert!(false, "twin: reachability witness");
}
