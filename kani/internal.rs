//! Direct-state constructor for terms (compiled inside `hpo::term::internal`).
use super::*;

/// A term whose three relation groups are given directly (no insert calls), everything else as
/// `HpoTermInternal::new` leaves it.
pub(crate) fn term_with(id: u32, parents: HpoGroup, all_parents: HpoGroup, children: HpoGroup) -> HpoTermInternal {
    HpoTermInternal {
        parents,
        all_parents,
        children,
        ..HpoTermInternal::new(String::from("t"), HpoTermId::from_u32(id))
    }
}

/// Same, but built as a full struct literal with *unallocated* annotation sets (`HashSet::default()`
/// instead of `with_capacity(50/20/20)`): three heap objects fewer per term for the solver.
pub(crate) fn term_lean(id: u32, parents: HpoGroup, all_parents: HpoGroup, children: HpoGroup) -> HpoTermInternal {
    HpoTermInternal {
        id: HpoTermId::from_u32(id),
        name: String::new(),
        parents,
        all_parents,
        children,
        genes: Genes::default(),
        omim_diseases: OmimDiseases::default(),
        orpha_diseases: OrphaDiseases::default(),
        ic: InformationContent::default(),
        obsolete: false,
        replacement: None,
    }
}
