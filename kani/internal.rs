//! Direct-state constructor for terms (compiled inside `hpo::term::internal`).
use super::*;

/// A term whose three relation groups are given directly (no insert calls), everything else as
/// `HpoTermInternal::new` leaves it.
pub(crate) fn term_with(id: u32, parents: HpoGroup, all_parents: HpoGroup, children: HpoGroup) -> HpoTermInternal {
    HpoTermInternal {
        parents,
        all_parents,
        children,
        ..HpoTermInternal::new(String::from("t"), HpoTermId::from_u32(id))
    }
}

/// Same, but built as a full struct literal with *unallocated* annotation sets (`HashSet::default()`
/// instead of `with_capacity(50/20/20)`): three heap objects fewer per term for the solver.
pub(crate) fn term_lean(id: u32, parents: HpoGroup, all_parents: HpoGroup, children: HpoGroup) -> HpoTermInternal {
    HpoTermInternal {
        id: HpoTermId::from_u32(id),
        name: String::new(),
        parents,
        all_parents,
        children,
        genes: Genes::default(),
        omim_diseases: OmimDiseases::default(),
        orpha_diseases: OrphaDiseases::default(),
        ic: InformationContent::default(),
        obsolete: false,
        replacement: None,
    }
}

// ---------------------------------------------------------------------------------------------
// C07: term record encoder = documented v2/v3 layout
// ---------------------------------------------------------------------------------------------
use crate::annotations::AnnotationId as _;
use crate::ontology::verif_kani::stub_random_state;

fn be(b: &[u8], at: usize) -> u32 {
    ((b[at] as u32) << 24) | ((b[at + 1] as u32) << 16) | ((b[at + 2] as u32) << 8) | b[at + 3] as u32
}

fn encode_term<const NAME: usize, const L: usize>() {
    assert!(L == 14 + NAME);
    let nb: [u8; NAME] = kani::any();
    let Ok(name) = core::str::from_utf8(&nb) else {
        return;
    };
    let id: u32 = kani::any();
    let obsolete: bool = kani::any();
    let rep: u32 = kani::any();
    let has_rep: bool = kani::any();
    let mut t = HpoTermInternal::new(name.to_string(), HpoTermId::from_u32(id));
    *t.obsolete_mut() = obsolete;
    if has_rep {
        *t.replacement_mut() = Some(HpoTermId::from_u32(rep));
    }
    let out = t.as_bytes();
    assert!(out.len() == L, "record length");
    assert!(be(&out, 0) == L as u32, "total length field");
    assert!(be(&out, 4) == id, "term id field");
    assert!(out[8] == NAME as u8, "name length field");
    let mut i = 0;
    while i < NAME {
        assert!(out[9 + i] == nb[i], "name bytes");
        i += 1;
    }
    assert!(out[9 + NAME] == obsolete as u8, "flags byte: bit 0 = obsolete");
    assert!(be(&out, 10 + NAME) == if has_rep { rep } else { 0 }, "replacement id or 0");
    kani::cover!(obsolete && has_rep && rep != 0, "obsolete with replacement");
    kani::cover!(NAME > 1 && nb[0] >= 0x80, "opt: multi-byte character in the name");
    core::mem::forget(out);
    core::mem::forget(t);
}

#[kani::proof]
#[kani::stub(std::hash::RandomState::new, stub_random_state)]
#[kani::unwind(8)]
fn c07_term_encode_n0() {
    encode_term::<0, 14>();
}
#[kani::proof]
#[kani::stub(std::hash::RandomState::new, stub_random_state)]
#[kani::unwind(8)]
fn c07_term_encode_n1() {
    encode_term::<1, 15>();
}
#[kani::proof]
#[kani::stub(std::hash::RandomState::new, stub_random_state)]
#[kani::unwind(8)]
fn c07_term_encode_n3() {
    encode_term::<3, 17>();
}

/// parent section record: n_parents u32 BE | term id u32 BE | parent ids u32 BE ascending
#[kani::proof]
#[kani::stub(std::hash::RandomState::new, stub_random_state)]
#[kani::unwind(8)]
fn c07_term_parents_encode() {
    let id: u32 = kani::any();
    let p: [u32; 2] = kani::any();
    let n: usize = kani::any();
    kani::assume(n <= 2);
    kani::assume(p[0] != p[1]);
    let mut parents = HpoGroup::default();
    if n >= 1 {
        parents.insert(p[0]);
    }
    if n >= 2 {
        parents.insert(p[1]);
    }
    let t = term_lean(id, parents, HpoGroup::default(), HpoGroup::default());
    let out = t.parents_as_byte();
    assert!(out.len() == 8 + 4 * n);
    assert!(be(&out, 0) == n as u32, "number of parents");
    assert!(be(&out, 4) == id, "term id");
    if n == 1 {
        assert!(be(&out, 8) == p[0]);
    }
    if n == 2 {
        let (lo, hi) = if p[0] < p[1] { (p[0], p[1]) } else { (p[1], p[0]) };
        assert!(be(&out, 8) == lo && be(&out, 12) == hi, "parent ids ascending, big-endian");
    }
    kani::cover!(n == 2 && p[0] > p[1], "two parents inserted in descending order");
    kani::cover!(n == 0, "root term without parents");
    core::mem::forget(out);
    core::mem::forget(t);
}

/// over-long term names: the emitted 255-byte name field must be valid UTF-8 (see gene.rs)
#[kani::proof]
#[kani::stub(std::hash::RandomState::new, stub_random_state)]
#[kani::unwind(262)]
fn c07_term_name_cap_utf8() {
    let mut raw = [b'a'; 258];
    let c: [u8; 3] = kani::any();
    raw[253] = c[0];
    raw[254] = c[1];
    raw[255] = c[2];
    let Ok(name) = core::str::from_utf8(&raw) else {
        return;
    };
    let t = HpoTermInternal::new(name.to_string(), HpoTermId::from_u32(1));
    let out = t.as_bytes();
    assert!(out[8] == 255, "name length capped at 255");
    assert!(out.len() == 14 + 255);
    let field_ok = core::str::from_utf8(&out[9..9 + 255]).is_ok();
    assert!(field_ok, "emitted name field is valid UTF-8");
    kani::cover!(c[0] >= 0xC0, "multi-byte character at the cut");
    core::mem::forget(out);
    core::mem::forget(t);
}

// ---------------------------------------------------------------------------------------------
// C01: memoisation test of the closure computation
// ---------------------------------------------------------------------------------------------
/// parents_cached() <=> no direct parents, or a non-empty ancestor set
#[kani::proof]
#[kani::stub(std::hash::RandomState::new, stub_random_state)]
#[kani::unwind(6)]
fn c01_parents_cached_truth_table() {
    use crate::term::group::verif_kani::subset;
    let ids: [u32; 2] = [4, 9];
    let mp: u8 = kani::any();
    let ma: u8 = kani::any();
    kani::assume(mp < 4 && ma < 4);
    let t = term_lean(3, subset(&ids, mp), subset(&ids, ma), HpoGroup::default());
    assert!(t.parents_cached() == (mp == 0 || ma != 0));
    kani::cover!(mp != 0 && ma == 0, "parents known, closure not computed yet");
    core::mem::forget(t);
}

/// add_parent / add_child record exactly the given id on exactly that side
#[kani::proof]
#[kani::stub(std::hash::RandomState::new, stub_random_state)]
#[kani::unwind(6)]
fn c01_term_add_parent_add_child() {
    let p: u32 = kani::any();
    let c: u32 = kani::any();
    let mut t = term_lean(3, HpoGroup::default(), HpoGroup::default(), HpoGroup::default());
    t.add_parent(p);
    t.add_child(c);
    t.add_parent(p);
    assert!(t.parents().len() == 1 && t.parents().contains(&HpoTermId::from_u32(p)));
    assert!(t.children().len() == 1 && t.children().contains(&HpoTermId::from_u32(c)));
    assert!(t.all_parents().is_empty(), "the closure is only written by the cache step");
    kani::cover!(p == c, "same id on both sides");
    core::mem::forget(t);
}
