//! C17 — dendrogram bookkeeping of `Linkage` on directly built states (compiled inside `hpo::stats::linkage`).
use super::*;
use crate::ontology::verif_kani::stub_random_state;

fn linkage_with(initial_len: usize, clusters: &[(usize, usize, usize)]) -> Linkage<'static> {
    let mut cv = ClusterVec::with_capacity(4);
    let mut i = 0;
    while i < clusters.len() {
        cv.push(Cluster::new(clusters[i].0, clusters[i].1, 0.5, clusters[i].2));
        i += 1;
    }
    Linkage {
        sets: Vec::new(),
        distance_matrix: DistanceMatrix::default(),
        initial_len,
        clusters: cv,
    }
}

/// size_of_cluster(i, j): inputs count 1, an intermediate cluster (index >= n) counts its recorded size
#[kani::proof]
#[kani::stub(std::hash::RandomState::new, stub_random_state)]
#[kani::unwind(5)]
fn c17_size_of_cluster() {
    // n = 4 inputs, two merges recorded: cluster 4 (size s4), cluster 5 (size s5)
    let s4: usize = kani::any();
    let s5: usize = kani::any();
    kani::assume(s4 >= 2 && s4 <= 4 && s5 >= 2 && s5 <= 4);
    let l = linkage_with(4, &[(0, 1, s4), (2, 4, s5)]);
    let i: usize = kani::any();
    let j: usize = kani::any();
    kani::assume(i < 6 && j < 6);
    let size = |k: usize| if k < 4 { 1 } else if k == 4 { s4 } else { s5 };
    assert!(l.size_of_cluster(i, j) == size(i) + size(j), "sizes add up; the k-th merge is addressed as n+k");
    kani::cover!(i == 5 && j == 3, "cluster merged with an input");
    kani::cover!(i == 4 && j == 5, "two clusters merged");
    core::mem::forget(l);
}

/// indicies(): the leaves in dendrogram order = lhs/rhs below n of each merge, in merge order
#[kani::proof]
#[kani::stub(std::hash::RandomState::new, stub_random_state)]
#[kani::unwind(5)]
fn c17_indicies_leaf_order() {
    // a valid dendrogram over 3 inputs: first merge (a,b) of two inputs, second merges the rest with cluster 3
    let a: usize = kani::any();
    let b: usize = kani::any();
    kani::assume(a < 3 && b < 3 && a != b);
    let c = 3 - a - b;
    let swap: bool = kani::any();
    let second = if swap { (3, c, 3) } else { (c, 3, 3) };
    let l = linkage_with(3, &[(a, b, 2), second]);
    let idx = l.indicies();
    assert!(idx.len() == 3, "every input appears exactly once");
    assert!(idx[0] == a && idx[1] == b && idx[2] == c);
    assert!(l.cluster().len() == 2);
    kani::cover!(swap && a == 2, "cluster on the left-hand side of the last merge");
    core::mem::forget(idx);
    core::mem::forget(l);
}
