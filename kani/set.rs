//! C13 — HpoSet filters and replacements on a directly built 3-term ontology (compiled inside `hpo::set`).
//! Shape concrete (terms 1,2,3 exist; the set's members are a per-instance constant), content
//! symbolic: ancestor sets, obsolete flags, replacement ids, modifier roots.
use super::*;
#[allow(unused_imports)]
use crate::annotations::AnnotationId as _;
use crate::ontology::verif_kani::{add_term, empty_ontology_cap, stub_random_state, term_mut};
use crate::term::group::verif_kani::{is_sorted_set, subset};
use crate::term::internal::verif_kani::term_lean;

const IDS: [u32; 3] = [1, 2, 3];

fn none() -> HpoGroup {
    HpoGroup::default()
}

/// ontology with terms 1,2,3; ancestors(t) = symbolic subset of the other two ids
fn build(anc: &[u8; 3]) -> Ontology {
    let mut o = empty_ontology_cap(8, 4);
    let mut i = 0;
    while i < 3 {
        add_term(&mut o, term_lean(IDS[i], none(), subset(&IDS, anc[i]), none()));
        i += 1;
    }
    o
}

fn symbolic_ancestors() -> [u8; 3] {
    let anc: [u8; 3] = kani::any();
    let mut i = 0;
    while i < 3 {
        kani::assume(anc[i] < 8 && anc[i] >> i & 1 == 0); // never its own ancestor
        i += 1;
    }
    anc
}

fn group_is_mask(g: &HpoGroup, mask: u8) -> bool {
    crate::ontology::verif_kani::group_is_subset(g, &IDS, mask)
}

/// ontology with terms 1,2,3 where every term has exactly K ancestors with arbitrary u32 ids
/// (strictly ascending, never the term itself): shape concrete, content symbolic
fn build_k<const K: usize>() -> (Ontology, [[u32; K]; 3]) {
    let mut o = empty_ontology_cap(8, 4);
    let anc: [[u32; K]; 3] = kani::any();
    let full: u8 = ((1u16 << K) - 1) as u8;
    let mut i = 0;
    while i < 3 {
        let mut k = 0;
        while k < K {
            kani::assume(anc[i][k] != IDS[i] && (k == 0 || anc[i][k - 1] < anc[i][k]));
            k += 1;
        }
        add_term(&mut o, term_lean(IDS[i], none(), subset(&anc[i], full), none()));
        i += 1;
    }
    (o, anc)
}

fn is_anc<const K: usize>(anc: &[[u32; K]; 3], of: usize, id: u32) -> bool {
    let mut r = false;
    let mut k = 0;
    while k < K {
        if anc[of][k] == id {
            r = true;
        }
        k += 1;
    }
    r
}

/// child_nodes keeps exactly the members that have no descendant in the set
fn child_nodes_h<const MASK: u8, const K: usize>() {
    let (o, anc) = build_k::<K>();
    let set = HpoSet::new(&o, subset(&IDS, MASK));
    let res = set.child_nodes();
    let mut expected: u8 = 0;
    let mut i = 0;
    while i < 3 {
        if MASK >> i & 1 == 1 {
            let mut has_desc = false;
            let mut j = 0;
            while j < 3 {
                if MASK >> j & 1 == 1 && is_anc(&anc, j, IDS[i]) {
                    has_desc = true;
                }
                j += 1;
            }
            if !has_desc {
                expected |= 1 << i;
            }
        }
        i += 1;
    }
    assert!(group_is_mask(&res.group, expected), "child_nodes = members without a descendant in the set");
    assert!(res.len() == expected.count_ones() as usize && set.len() == MASK.count_ones() as usize);
    kani::cover!(expected != MASK && expected != 0, "some members dropped, some kept");
    kani::cover!(expected == MASK, "nothing dropped");
    core::mem::forget(res);
    core::mem::forget(set);
    core::mem::forget(o);
}

#[kani::proof]
#[kani::stub(std::hash::RandomState::new, stub_random_state)]
#[kani::unwind(6)]
fn c13_child_nodes_all3() {
    child_nodes_h::<0b111, 1>();
}
#[kani::proof]
#[kani::stub(std::hash::RandomState::new, stub_random_state)]
#[kani::unwind(6)]
fn c13_child_nodes_all3_k2() {
    child_nodes_h::<0b111, 2>();
}
#[kani::proof]
#[kani::stub(std::hash::RandomState::new, stub_random_state)]
#[kani::unwind(6)]
fn c13_child_nodes_1_3() {
    child_nodes_h::<0b101, 2>();
}

/// without_obsolete / remove_obsolete drop exactly the flagged members; both variants agree
fn obsolete_h<const MASK: u8>() {
    let mut o = build(&[0, 0, 0]);
    let flags: [bool; 3] = kani::any();
    let mut i = 0;
    while i < 3 {
        *term_mut(&mut o, IDS[i]).obsolete_mut() = flags[i];
        i += 1;
    }
    let mut set = HpoSet::new(&o, subset(&IDS, MASK));
    let copy = set.without_obsolete();
    set.remove_obsolete();
    let mut expected: u8 = 0;
    let mut i = 0;
    while i < 3 {
        if MASK >> i & 1 == 1 && !flags[i] {
            expected |= 1 << i;
        }
        i += 1;
    }
    assert!(group_is_mask(&copy.group, expected), "without_obsolete drops exactly the obsolete members");
    assert!(group_is_mask(&set.group, expected), "remove_obsolete yields the same set in place");
    kani::cover!(expected != MASK && expected != 0, "some obsolete, some not");
    core::mem::forget(copy);
    core::mem::forget(set);
    core::mem::forget(o);
}

#[kani::proof]
#[kani::stub(std::hash::RandomState::new, stub_random_state)]
#[kani::unwind(6)]
fn c13_obsolete_all3() {
    obsolete_h::<0b111>();
}
#[kani::proof]
#[kani::stub(std::hash::RandomState::new, stub_random_state)]
#[kani::unwind(6)]
fn c13_obsolete_2_3() {
    obsolete_h::<0b110>();
}

/// with_replaced_obsolete / replace_obsolete substitute exactly the members that name a
/// replacement (replacement ids arbitrary u32, may collide with members); both variants agree
fn replace_h<const MASK: u8>() {
    let mut o = build(&[0, 0, 0]);
    let has: [bool; 3] = kani::any();
    let rep: [u32; 3] = kani::any();
    let mut i = 0;
    while i < 3 {
        if has[i] {
            *term_mut(&mut o, IDS[i]).replacement_mut() = Some(HpoTermId::from_u32(rep[i]));
        }
        i += 1;
    }
    let mut set = HpoSet::new(&o, subset(&IDS, MASK));
    let copy = set.with_replaced_obsolete();
    set.replace_obsolete();
    // extensional oracle with an arbitrary probe id
    let p: u32 = kani::any();
    let mut expected = false;
    let mut i = 0;
    while i < 3 {
        if MASK >> i & 1 == 1 {
            let mapped = if has[i] { rep[i] } else { IDS[i] };
            if mapped == p {
                expected = true;
            }
        }
        i += 1;
    }
    assert!(is_sorted_set(&copy.group) && is_sorted_set(&set.group));
    assert!(copy.contains(&HpoTermId::from_u32(p)) == expected, "members replaced exactly where a replacement is named");
    assert!(set.contains(&HpoTermId::from_u32(p)) == expected, "in-place variant yields the same set");
    assert!(copy.len() == set.len());
    kani::cover!(has[0] && !has[2] && rep[0] == 3, "replacement collides with another member");
    kani::cover!(has[0] && rep[0] > 3, "replacement outside the original set");
    core::mem::forget(copy);
    core::mem::forget(set);
    core::mem::forget(o);
}

#[kani::proof]
#[kani::stub(std::hash::RandomState::new, stub_random_state)]
#[kani::unwind(6)]
fn c13_replace_all3() {
    replace_h::<0b111>();
}
#[kani::proof]
#[kani::stub(std::hash::RandomState::new, stub_random_state)]
#[kani::unwind(6)]
fn c13_replace_1_3() {
    replace_h::<0b101>();
}

/// without_modifier / remove_modifier drop exactly the members that are, or descend from, a
/// modifier root (R roots with arbitrary u32 ids; every term has K ancestors with arbitrary ids);
/// both variants agree
fn modifier_h<const MASK: u8, const K: usize, const R: usize>(both: bool) {
    let (mut o, anc) = build_k::<K>();
    let roots: [u32; R] = kani::any();
    let mut k = 1;
    while k < R {
        kani::assume(roots[k - 1] < roots[k]);
        k += 1;
    }
    *o.modifier_mut() = subset(&roots, ((1u16 << R) - 1) as u8);
    let mut set = HpoSet::new(&o, subset(&IDS, MASK));
    let copy = set.without_modifier();
    if both {
        set.remove_modifier();
    }
    let mut expected: u8 = 0;
    let mut i = 0;
    while i < 3 {
        let mut is_mod = false;
        let mut k = 0;
        while k < R {
            if roots[k] == IDS[i] || is_anc(&anc, i, roots[k]) {
                is_mod = true;
            }
            k += 1;
        }
        if MASK >> i & 1 == 1 && !is_mod {
            expected |= 1 << i;
        }
        i += 1;
    }
    assert!(group_is_mask(&copy.group, expected), "without_modifier drops exactly the modifier members");
    if both {
        assert!(group_is_mask(&set.group, expected), "remove_modifier yields the same set in place");
    }
    kani::cover!(expected != MASK && expected != 0, "some modifier members, some phenotype members");
    core::mem::forget(copy);
    core::mem::forget(set);
    core::mem::forget(o);
}

#[kani::proof]
#[kani::stub(std::hash::RandomState::new, stub_random_state)]
#[kani::unwind(4)]
fn c13_modifier_all3() {
    modifier_h::<0b111, 1, 1>(true);
}
#[kani::proof]
#[kani::stub(std::hash::RandomState::new, stub_random_state)]
#[kani::unwind(4)]
fn c13_modifier_1_2() {
    modifier_h::<0b011, 1, 1>(false);
}

/// len / is_empty / contains / get / iter agree with the member list
#[kani::proof]
#[kani::stub(std::hash::RandomState::new, stub_random_state)]
#[kani::unwind(6)]
fn c13_accessors() {
    let o = build(&[0, 0, 0]);
    let m: u8 = 0b101;
    let set = HpoSet::new(&o, subset(&IDS, m));
    assert!(set.len() == 2 && !set.is_empty());
    let p: u32 = kani::any();
    assert!(set.contains(&HpoTermId::from_u32(p)) == (p == 1 || p == 3));
    assert!(set.get(0).unwrap().id().as_u32() == 1 && set.get(1).unwrap().id().as_u32() == 3 && set.get(2).is_none());
    let mut it = set.iter();
    assert!(it.next().unwrap().id().as_u32() == 1);
    assert!(it.next().unwrap().id().as_u32() == 3);
    assert!(it.next().is_none());
    let empty = HpoSet::new(&o, none());
    assert!(empty.is_empty() && empty.len() == 0 && empty.child_nodes().is_empty());
    kani::cover!(p == 2, "non-member probed");
    core::mem::forget(set);
    core::mem::forget(o);
}

#[kani::proof]
#[kani::stub(std::hash::RandomState::new, stub_random_state)]
#[kani::unwind(6)]
fn c13_twin_must_fail() {
    obsolete_h::<0b110>();
    assert!(false, "twin: reachability witness");
}
