//! C05 — row/column views of the similarity matrix (compiled inside `hpo::matrix`).
use super::*;

/// rows()[i][j] == data[i*C+j], cols()[j][i] == data[i*C+j], iterator lengths exact; contents symbolic
fn views<const R: usize, const C: usize, const N: usize>() {
    assert!(N == R * C);
    let data: [u8; N] = kani::any();
    let m = Matrix::new(R, C, &data);
    assert!(m.len() == N && m.dim() == (R, C) && m.is_empty() == (N == 0));
    let mut i = 0;
    for row in m.rows() {
        let mut j = 0;
        for v in row {
            assert!(i < R && j < C, "no extra rows / elements");
            assert!(*v == data[i * C + j], "row i, position j is data[i*C+j]");
            j += 1;
        }
        assert!(j == C, "row has exactly C elements");
        i += 1;
    }
    assert!(i == R, "exactly R rows");
    let mut j = 0;
    for col in m.cols() {
        let mut i = 0;
        for v in col {
            assert!(i < R && j < C);
            assert!(*v == data[i * C + j], "column j, position i is data[i*C+j]");
            i += 1;
        }
        assert!(i == R, "column has exactly R elements");
        j += 1;
    }
    assert!(j == C, "exactly C columns");
    kani::cover!(N > 1 && data[0] != data[N - 1], "opt: distinct entries");
    kani::cover!(true, "all views walked");
}

macro_rules! views_harness {
    ($name:ident, $r:expr, $c:expr) => {
        #[kani::proof]
        #[kani::unwind(5)]
        fn $name() {
            views::<$r, $c, { $r * $c }>();
        }
    };
}
views_harness!(c05_matrix_views_1x1, 1, 1);
views_harness!(c05_matrix_views_1x3, 1, 3);
views_harness!(c05_matrix_views_3x1, 3, 1);
views_harness!(c05_matrix_views_2x2, 2, 2);
views_harness!(c05_matrix_views_2x3, 2, 3);
views_harness!(c05_matrix_views_3x2, 3, 2);
views_harness!(c05_matrix_views_3x3, 3, 3);

/// f32 element type, non-square
#[kani::proof]
#[kani::unwind(5)]
fn c05_matrix_views_f32_2x3() {
    let data: [f32; 6] = kani::any();
    let m = Matrix::new(2, 3, &data);
    let mut n = 0;
    for (i, row) in m.rows().enumerate() {
        for (j, v) in row.enumerate() {
            assert!(v.to_bits() == data[i * 3 + j].to_bits());
            n += 1;
        }
    }
    assert!(n == 6);
    let mut n = 0;
    for (j, col) in m.cols().enumerate() {
        for (i, v) in col.enumerate() {
            assert!(v.to_bits() == data[i * 3 + j].to_bits());
            n += 1;
        }
    }
    assert!(n == 6);
    kani::cover!(data[1].to_bits() != data[3].to_bits(), "transposed positions differ");
}

#[kani::proof]
#[kani::unwind(5)]
fn c05_matrix_twin_must_fail() {
    views::<2, 2, 4>();
    assert!(false, "twin: reachability witness");
}
