//! C06 — integer wiring of the hypergeometric tail (compiled inside `hpo::stats::hypergeom::statrs`).
//! libm (`exp`, `ln`) and the Lanczos `ln_gamma` are replaced by deterministic models / recording
//! stubs: what is decided is *which* binomials are summed, in which order, with which arguments,
//! and the table/gamma switch — not the numeric value (DESIGN §5 C06, "outside the claim").
use super::*;

// -------------------------------------------------------------------------------------------
// recording stubs
// -------------------------------------------------------------------------------------------
const LOGN: usize = 20;
static mut LOG: [(u64, u64); LOGN] = [(0, 0); LOGN];
static mut NLOG: usize = 0;

fn log_push(a: u64, b: u64) {
    unsafe {
        if NLOG < LOGN {
            LOG[NLOG] = (a, b);
        }
        NLOG += 1;
    }
}
fn log_len() -> usize {
    unsafe { NLOG }
}
fn log_at(i: usize) -> (u64, u64) {
    unsafe { LOG[i] }
}

/// stands for ln C(n,k): records the call, returns an exactly representable code of (n,k)
fn rec_ln_binomial(n: u64, k: u64) -> f64 {
    log_push(n, k);
    code(n, k) as f64
}
fn code(n: u64, k: u64) -> i64 {
    (n * 16 + k) as i64
}
/// deterministic model of exp: identity (only determinism and exactness on small integers matter)
fn model_exp(x: f64) -> f64 {
    x
}
fn model_ln(x: f64) -> f64 {
    x
}
fn rec_ln_factorial(x: u64) -> f64 {
    log_push(x, 0);
    sq(x)
}
/// non-linear, exactly representable code of a small argument
fn sq(x: u64) -> f64 {
    let y = x as u16;
    (y as u32 * y as u32) as f64
}
fn rec_ln_gamma(x: f64) -> f64 {
    log_push(x as u64, 1);
    x + 0.25
}

// -------------------------------------------------------------------------------------------
// sf: tail bound and argument order
// -------------------------------------------------------------------------------------------
const NMAX: u64 = 6;

/// For all K, n <= N <= 6 and x <= 7: sf(x) is exactly 1 iff x < max(0, n+K-N), exactly 0 iff
/// x >= min(K,n), otherwise the sum over i in (x, min(K,n)] of exp(lnC(K,i) + lnC(N-K,n-i) - lnC(N,n)),
/// the binomials being requested once for (N,n) and then for (K,i),(N-K,n-i) in ascending i, nothing else.
/// With P[X >= k] = sf(k-1) this is the tail "k or more".
#[kani::proof]
#[kani::stub(ln_binomial, rec_ln_binomial)]
#[kani::stub(f64::exp, model_exp)]
#[kani::unwind(9)]
fn c06_sf_tail_terms_and_order() {
    let big_n: u64 = kani::any();
    let big_k: u64 = kani::any();
    let n: u64 = kani::any();
    let x: u64 = kani::any();
    kani::assume(big_n <= NMAX && big_k <= big_n && n <= big_n && x <= NMAX + 1);
    let h = Hypergeometric::new(big_n, big_k, n).unwrap();
    let lo = if n + big_k > big_n { n + big_k - big_n } else { 0 };
    let hi = if big_k < n { big_k } else { n };
    assert!(h.min() == lo && h.max() == hi);
    let r = h.sf(x);
    if x < lo {
        assert!(r == 1.0, "below the support: P[X > x] = 1");
        assert!(log_len() == 0);
        kani::cover!(true, "below support");
    } else if x >= hi {
        assert!(r == 0.0, "at or above the maximum: P[X > x] = 0");
        assert!(log_len() == 0);
        kani::cover!(x == hi, "x is the maximum");
    } else {
        let terms = (hi - x) as usize;
        assert!(log_len() == 1 + 2 * terms, "one denominator + two binomials per summed term");
        assert!(log_at(0) == (big_n, n), "denominator is C(N, n)");
        let mut expected: i64 = 0;
        let mut j = 0usize;
        while j < terms {
            let i = x + 1 + j as u64;
            assert!(log_at(1 + 2 * j) == (big_k, i), "C(K, i), ascending i from x+1");
            assert!(log_at(2 + 2 * j) == (big_n - big_k, n - i), "C(N-K, n-i)");
            expected += code(big_k, i) + code(big_n - big_k, n - i) - code(big_n, n);
            j += 1;
        }
        assert!(r == expected as f64, "sum of exp(lnC(K,i)+lnC(N-K,n-i)-lnC(N,n)) over the tail");
        kani::cover!(terms >= 3, "three or more tail terms");
        kani::cover!(terms == 1 && lo > 0, "single term with a positive lower support bound");
    }
}

/// Hypergeometric::new rejects exactly K > N or n > N (all u64)
#[kani::proof]
fn c06_new_rejects_invalid() {
    let big_n: u64 = kani::any();
    let big_k: u64 = kani::any();
    let n: u64 = kani::any();
    let r = Hypergeometric::new(big_n, big_k, n);
    let ok = r.is_ok();
    core::mem::forget(r);
    assert!(ok == (big_k <= big_n && n <= big_n));
    kani::cover!(ok && big_n > 170, "valid, population above the factorial table");
    kani::cover!(!ok, "rejected");
}

/// support bounds for all parameters a u32-sized background can produce
#[kani::proof]
fn c06_support_bounds() {
    let big_n: u64 = kani::any();
    let big_k: u64 = kani::any();
    let n: u64 = kani::any();
    kani::assume(big_n <= u32::MAX as u64 && big_k <= big_n && n <= big_n);
    let h = Hypergeometric::new(big_n, big_k, n).unwrap();
    assert!(h.min() == (n + big_k).saturating_sub(big_n));
    assert!(h.max() == if big_k < n { big_k } else { n });
    assert!(h.min() <= h.max());
    kani::cover!(h.min() > 0, "positive lower bound");
}

// -------------------------------------------------------------------------------------------
// ln_binomial / ln_factorial
// -------------------------------------------------------------------------------------------

/// ln_binomial(n,k) = -inf iff k > n, else lf(n) - lf(k) - lf(n-k) (lf recorded: exactly those three, in that order)
#[kani::proof]
#[kani::stub(ln_factorial, rec_ln_factorial)]
fn c06_ln_binomial_structure() {
    let n: u64 = kani::any();
    let k: u64 = kani::any();
    kani::assume(n <= 255 && k <= 255);
    let r = ln_binomial(n, k);
    if k > n {
        assert!(r == f64::NEG_INFINITY);
        assert!(log_len() == 0);
        kani::cover!(true, "k > n");
    } else {
        assert!(log_len() == 3);
        assert!(log_at(0).0 == n && log_at(1).0 == k && log_at(2).0 == n - k);
        let e = sq(n) - sq(k) - sq(n - k);
        assert!(r == e, "ln n! - ln k! - ln (n-k)!");
        kani::cover!(k == n && n > 170, "k == n above the table");
    }
}

/// ln_factorial(x): ln(FCACHE[x]) iff x <= 170, else ln_gamma(x + 1)
#[kani::proof]
#[kani::stub(ln_gamma, rec_ln_gamma)]
#[kani::stub(f64::ln, model_ln)]
fn c06_ln_factorial_table_switch() {
    let x: u64 = kani::any();
    kani::assume(x <= u32::MAX as u64);
    let r = ln_factorial(x);
    if x <= 170 {
        assert!(log_len() == 0, "table entry used, gamma not called");
        assert!(r == FCACHE[x as usize], "ln of the table entry x!");
        kani::cover!(x == 170, "last table entry");
    } else {
        assert!(log_len() == 1 && log_at(0) == (x + 1, 1), "ln_gamma(x+1) for x above the table");
        assert!(r == (x + 1) as f64 + 0.25);
        kani::cover!(x == 171, "first value above the table");
    }
}

/// the compile-time table holds i! (as the running product), 171 entries, all finite
#[kani::proof]
#[kani::unwind(173)]
fn c06_factorial_table() {
    assert!(MAX_FACTORIAL == 170 && FCACHE.len() == 171);
    assert!(FCACHE[0] == 1.0 && FCACHE[1] == 1.0 && FCACHE[2] == 2.0 && FCACHE[5] == 120.0);
    let mut i = 1;
    while i <= 170 {
        assert!(FCACHE[i] == FCACHE[i - 1] * i as f64);
        assert!(FCACHE[i].is_finite());
        i += 1;
    }
    kani::cover!(i == 171, "all entries checked");
}

#[kani::proof]
#[kani::stub(ln_binomial, rec_ln_binomial)]
#[kani::stub(f64::exp, model_exp)]
#[kani::unwind(9)]
fn c06_twin_must_fail() {
    let big_n: u64 = kani::any();
    let big_k: u64 = kani::any();
    let n: u64 = kani::any();
    let x: u64 = kani::any();
    kani::assume(big_n <= NMAX && big_k <= big_n && n <= big_n && x <= NMAX + 1);
    let h = Hypergeometric::new(big_n, big_k, n).unwrap();
    let _ = h.sf(x);
    assert!(false, "twin: reachability witness");
}
