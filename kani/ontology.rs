//! Shared direct-state constructors for ontology-level harnesses, and C19 (default categories /
//! modifiers) harnesses. Compiled inside `hpo::ontology`.
use super::*;
#[allow(unused_imports)]
use crate::annotations::AnnotationId as _;
pub(crate) use super::termarena::verif_kani::{small_arena, small_arena_cap, stub_random_state};

/// An ontology with an empty small arena (id table of `table` entries), no annotations.
pub(crate) fn empty_ontology(table: usize) -> Ontology {
    empty_ontology_cap(table, 8)
}

pub(crate) fn empty_ontology_cap(table: usize, cap: usize) -> Ontology {
    Ontology {
        hpo_terms: small_arena_cap(table, cap),
        genes: HashMap::default(),
        omim_diseases: HashMap::default(),
        orpha_diseases: HashMap::default(),
        hpo_version: (0u16, 0u8, 0u8),
        categories: HpoGroup::default(),
        modifier: HpoGroup::default(),
    }
}

pub(crate) fn mk_term(id: u32) -> HpoTermInternal {
    HpoTermInternal::new(String::from("t"), HpoTermId::from_u32(id))
}

pub(crate) fn add_term(o: &mut Ontology, t: HpoTermInternal) {
    o.hpo_terms.insert(t);
}

pub(crate) fn term_mut(o: &mut Ontology, id: u32) -> &mut HpoTermInternal {
    o.hpo_terms.get_unchecked_mut(HpoTermId::from_u32(id))
}

fn tid(n: u32) -> HpoTermId {
    HpoTermId::from_u32(n)
}

/// `g` == the subset of `ids` (ascending, concrete) selected by `mask`, as an exact ascending list
pub(crate) fn group_is_subset(g: &HpoGroup, ids: &[u32], mask: u8) -> bool {
    let mut k = 0;
    let mut i = 0;
    while i < ids.len() {
        if mask >> i & 1 == 1 {
            match g.get(k) {
                Some(x) => {
                    if x.as_u32() != ids[i] {
                        return false;
                    }
                }
                None => return false,
            }
            k += 1;
        }
        i += 1;
    }
    g.len() == k
}

// ---------------------------------------------------------------------------------------------
// C19 (ontology level; the per-term classification harnesses are in hpoterm.rs)
// ---------------------------------------------------------------------------------------------
use crate::term::group::verif_kani::subset;
use crate::term::internal::verif_kani::term_lean;

fn none() -> HpoGroup {
    HpoGroup::default()
}

/// set_default_modifier: Err(DoesNotExist) iff HP:1 absent, else modifier == children(1) \ {118}.
/// Presence of the root is a const parameter (a symbolic presence makes every arena access a
/// symbolic-offset access, DESIGN §1); the children set and the stale flag are symbolic.
fn default_modifier<const P1: bool>() {
    let mut o = empty_ontology_cap(128, 2);
    let kids: [u32; 4] = [5, 6, 118, 120];
    let m: u8 = kani::any();
    kani::assume(m < 16);
    add_term(&mut o, term_lean(if P1 { 1 } else { 2 }, none(), none(), subset(&kids, m)));
    // a pre-existing (stale) modifier group must be replaced, not merged
    let stale: bool = kani::any();
    if stale {
        *o.modifier_mut() = subset(&[7u32], 1);
    }
    let r = o.set_default_modifier();
    if P1 {
        assert!(r.is_ok());
        assert!(group_is_subset(o.modifier(), &kids, m & 0b1011), "modifier roots = children of HP:1 other than HP:118");
        kani::cover!(m == 15 && stale, "opt: HP:118 among the children and excluded, stale group replaced");
        kani::cover!(m & 0b1011 == 0, "opt: no modifier root");
    } else {
        assert!(matches!(r, Err(HpoError::DoesNotExist)), "missing root term is an error");
        kani::cover!(m != 0, "opt: root missing");
    }
    kani::cover!(stale, "call returned with a stale group present");
    if false {
    }
    core::mem::forget(r);
    core::mem::forget(o);
}

#[kani::proof]
#[kani::stub(std::hash::RandomState::new, stub_random_state)]
#[kani::unwind(8)]
fn c19_default_modifier_present() {
    default_modifier::<true>();
}
#[kani::proof]
#[kani::stub(std::hash::RandomState::new, stub_random_state)]
#[kani::unwind(8)]
fn c19_default_modifier_absent() {
    default_modifier::<false>();
}

/// set_default_categories: error iff HP:1 or HP:118 absent, else
/// categories == (children(1) \ {118}) ∪ children(118), ascending.
/// `all` = candidate ids ascending, `dom1`/`dom2` = which of them may be children of HP:1 / HP:118,
/// `bit118` = the bit of HP:118 in `all`.
fn default_categories<const N: usize, const P1: bool, const P118: bool>(all: [u32; N], dom1: u8, dom2: u8, bit118: u8) {
    let mut o = empty_ontology_cap(128, 3);
    let m1: u8 = kani::any();
    let m2: u8 = kani::any();
    kani::assume(m1 & !dom1 == 0);
    kani::assume(m2 & !dom2 == 0);
    add_term(&mut o, term_lean(if P1 { 1 } else { 2 }, none(), none(), subset(&all, m1)));
    add_term(&mut o, term_lean(if P118 { 118 } else { 117 }, none(), none(), subset(&all, m2)));
    let r = o.set_default_categories();
    if P1 && P118 {
        assert!(r.is_ok());
        let expected = (m1 & !bit118) | m2;
        assert!(group_is_subset(o.categories(), &all, expected), "categories = modifier roots + children of HP:118, ascending");
        kani::cover!(m1 & bit118 != 0 && m2 != 0 && m1 & !bit118 != 0, "opt: both kinds of categories present");
        kani::cover!(m1 & m2 != 0, "opt: term below both roots counted once");
    } else {
        assert!(matches!(r, Err(HpoError::DoesNotExist)), "missing root term is an error");
        kani::cover!(m1 != 0 && m2 != 0, "opt: a root is missing");
    }
    kani::cover!(m1 != 0 && m2 != 0, "call returned with both child sets non-empty");
    if false {
    }
    core::mem::forget(r);
    core::mem::forget(o);
}

#[kani::proof]
#[kani::stub(std::hash::RandomState::new, stub_random_state)]
#[kani::unwind(8)]
fn c19_default_categories_present() {
    // children(1) ⊆ {5,7,118,120}, children(118) ⊆ {7,9,120}
    default_categories::<5, true, true>([5, 7, 9, 118, 120], 0b11011, 0b10110, 0b01000);
}
#[kani::proof]
#[kani::stub(std::hash::RandomState::new, stub_random_state)]
#[kani::unwind(8)]
fn c19_default_categories_no_root() {
    default_categories::<5, false, true>([5, 7, 9, 118, 120], 0b11011, 0b10110, 0b01000);
}
#[kani::proof]
#[kani::stub(std::hash::RandomState::new, stub_random_state)]
#[kani::unwind(8)]
fn c19_default_categories_no_phenotype_root() {
    default_categories::<5, true, false>([5, 7, 9, 118, 120], 0b11011, 0b10110, 0b01000);
}

#[kani::proof]
#[kani::stub(std::hash::RandomState::new, stub_random_state)]
#[kani::unwind(8)]
fn c19_twin_must_fail() {
    let mut o = empty_ontology_cap(128, 2);
    let m: u8 = kani::any();
    kani::assume(m < 2);
    add_term(&mut o, term_lean(1, none(), none(), subset(&[5u32], m)));
    let r = o.set_default_modifier();
    core::mem::forget(r);
    core::mem::forget(o);
    assert!(false, "twin: reachability witness");
}

// ---------------------------------------------------------------------------------------------
// C07: file header emitted by the serialiser
// ---------------------------------------------------------------------------------------------
/// metadata_as_bytes = "HPO" | 3 | year u16 BE | month | day, for every release version
#[kani::proof]
#[kani::stub(std::hash::RandomState::new, stub_random_state)]
#[kani::unwind(10)]
fn c07_file_header_encode() {
    let mut o = empty_ontology_cap(2, 1);
    let y: u16 = kani::any();
    let m: u8 = kani::any();
    let d: u8 = kani::any();
    o.hpo_version = (y, m, d);
    let out = o.metadata_as_bytes();
    assert!(out.len() == 8);
    assert!(out[0] == b'H' && out[1] == b'P' && out[2] == b'O' && out[3] == 3, "magic and current format version");
    assert!(out[4] == (y >> 8) as u8 && out[5] == y as u8 && out[6] == m && out[7] == d, "release date");
    // and the decoder's view of these 8 bytes
    let b = parser::binary::ontology::version(&out).unwrap();
    assert!(b.version() == BinaryVersion::V3 && b.len() == 4);
    kani::cover!(y > 255, "two-byte year");
    core::mem::forget(out);
    core::mem::forget(o);
}

/// An ontology without terms and annotations serialises to the 8-byte header followed by the five
/// sections (terms, parents, genes, OMIM, ORPHA), each present with its u32 length prefix 0.
#[kani::proof]
#[kani::stub(std::hash::RandomState::new, stub_random_state)]
#[kani::unwind(22)]
fn c07_empty_ontology_has_five_sections() {
    let mut o = empty_ontology_cap(2, 1);
    let y: u16 = kani::any();
    o.hpo_version = (y, 1, 31);
    let out = o.as_bytes();
    assert!(out.len() == 8 + 5 * 4, "header + five empty sections, each with its length prefix");
    let mut i = 8;
    while i < 28 {
        assert!(out[i] == 0);
        i += 1;
    }
    assert!(out[3] == 3 && out[4] == (y >> 8) as u8 && out[5] == y as u8);
    kani::cover!(y == 2023, "release year 2023");
    core::mem::forget(out);
    core::mem::forget(o);
}
