//! C08 — version enum and the term-section walker (compiled inside `hpo::parser::binary`).
use super::*;
#[allow(unused_imports)]
use crate::annotations::AnnotationId as _;
use crate::ontology::verif_kani::stub_random_state;

/// all 256 version bytes: 1,2,3 map to V1,V2,V3, everything else NotImplemented; order and u8 round trip
#[kani::proof]
fn c08_binary_version_enum() {
    let v: u8 = kani::any();
    match BinaryVersion::try_from(v) {
        Ok(x) => {
            assert!(v >= 1 && v <= 3);
            assert!(u8::from(&x) == v);
            let w: u8 = kani::any();
            if let Ok(y) = BinaryVersion::try_from(w) {
                assert!((x < y) == (v < w) && (x == y) == (v == w) && (x > y) == (v > w), "ordered like the version number");
            }
            kani::cover!(v == 3, "v3");
        }
        Err(e) => {
            assert!(v == 0 || v > 3);
            assert!(matches!(e, HpoError::NotImplemented));
            kani::cover!(v == 0, "version 0 rejected");
        }
    }
}

fn put(b: &mut [u8], at: usize, v: u32) {
    b[at] = (v >> 24) as u8;
    b[at + 1] = (v >> 16) as u8;
    b[at + 2] = (v >> 8) as u8;
    b[at + 3] = v as u8;
}

/// two concatenated v2 term records (name lengths 1 and 0): the walker yields exactly the two
/// terms in order, then None
#[kani::proof]
#[kani::stub(std::hash::RandomState::new, stub_random_state)]
#[kani::unwind(8)]
fn c08_term_section_two_records() {
    let mut buf: [u8; 29] = kani::any();
    put(&mut buf, 0, 15);
    buf[8] = 1;
    kani::assume(buf[9] < 0x80);
    put(&mut buf, 15, 14);
    buf[15 + 8] = 0;
    let mut it = BinaryTermBuilder::new(Bytes::new(&buf[..], BinaryVersion::V2));
    let t1 = it.next().unwrap();
    assert!(t1.id().as_u32() == u32::from_be_bytes([buf[4], buf[5], buf[6], buf[7]]));
    assert!(t1.name().as_bytes().len() == 1 && t1.name().as_bytes()[0] == buf[9]);
    let t2 = it.next().unwrap();
    assert!(t2.id().as_u32() == u32::from_be_bytes([buf[19], buf[20], buf[21], buf[22]]));
    assert!(t2.name().is_empty());
    assert!(t2.obsolete() == (buf[24] & 1 == 1));
    assert!(it.next().is_none(), "no third record");
    kani::cover!(t2.obsolete() && !t1.obsolete(), "flags are read per record");
    core::mem::forget(t1);
    core::mem::forget(t2);
}

/// u32_prefix reads big-endian and insists on more than 4 bytes
#[kani::proof]
fn c08_bytes_u32_prefix() {
    let b: [u8; 6] = kani::any();
    let by = Bytes::new(&b[..], BinaryVersion::V3);
    assert!(by.u32_prefix() == u32::from_be_bytes([b[0], b[1], b[2], b[3]]));
    assert!(by.len() == 6 && !by.is_empty());
    let sub = by.subset(2..);
    assert!(sub.len() == 4 && sub[0] == b[2] && sub.version() == BinaryVersion::V3);
    kani::cover!(b[0] != 0, "high byte set");
}
