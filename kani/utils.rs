//! C17 — `Combinations`, the pair enumerator the clustering uses (compiled inside `hpo::utils`).
use super::*;

/// One step of the iterator from a *concrete* cursor position, for an arbitrary pattern of dead
/// (`None`) slots: `next()` returns the first live pair at or after the cursor in the iterator's
/// scanning order - (a,b), (a,b+1) .. (a,L-1), then (a+1,a+2) .. - and leaves the cursor just behind
/// the returned pair; `None` iff no live pair is left, and then it stays `None`.
/// Every cursor position reachable from `new()` or `set_to_last()` is covered by one instance, so
/// by induction over the cursor the whole enumeration is exact (the induction itself is an argument,
/// not a solver query). `next()` recurses to skip dead slots; from a concrete cursor the recursion
/// depth is bounded by the number of remaining positions.
fn step_from<const L: usize>(a0: usize, b0: usize) {
    let alive: [bool; L] = kani::any();
    let mut inner: [Option<u8>; L] = [None; L];
    let mut i = 0;
    while i < L {
        if alive[i] {
            inner[i] = Some(i as u8);
        }
        i += 1;
    }
    let mut c = Combinations {
        inner: &inner,
        idx1: a0,
        idx2: b0,
    };
    // reference scan
    let mut expected: Option<(usize, usize)> = None;
    let mut a = a0;
    let mut b = b0;
    while a < L && expected.is_none() {
        while b < L && expected.is_none() {
            if alive[a] && alive[b] {
                expected = Some((a, b));
            }
            b += 1;
        }
        if expected.is_none() {
            a += 1;
            b = a + 1;
        }
    }
    let got = c.next();
    match expected {
        Some((i, j)) => {
            match got {
                Some((x, y)) => assert!(*x == i as u8 && *y == j as u8, "first live pair at or after the cursor"),
                None => panic!("a live pair was skipped"),
            }
            assert!(c.idx1 == i && c.idx2 == j + 1, "cursor just behind the returned pair");
            kani::cover!((i, j) != (a0, b0), "opt: dead slots were skipped");
        }
        None => {
            assert!(got.is_none(), "no live pair left");
            // with idx1 >= len every later call takes the `_ => None` arm (checked separately in
            // c17_exhausted_stays_exhausted); a second call here would start from a symbolic cursor
            assert!(c.idx1 >= L, "exhausted cursor");
            kani::cover!(L > 1, "opt: exhausted with slots present");
        }
    }
    kani::cover!(true, "step checked");
}

/// all cursor positions reachable from `new()`: (a,b) with a < b <= L, plus the start (0,1)
fn steps_normal<const L: usize>() {
    step_from::<L>(0, 1);
    let mut a = 0;
    while a < L {
        let mut b = a + 1;
        while b <= L {
            step_from::<L>(a, b);
            b += 1;
        }
        a += 1;
    }
}

/// all cursor positions reachable after `set_to_last()`: (L-1, b) with b <= L
fn steps_last_row<const L: usize>() {
    let dummy: [Option<u8>; L] = [None; L];
    let mut c = Combinations::new(&dummy);
    c.set_to_last();
    assert!(c.idx1 == L - 1 && c.idx2 == 0, "set_to_last positions the cursor at (last, 0)");
    let mut b = 0;
    while b <= L {
        step_from::<L>(L - 1, b);
        b += 1;
    }
}

#[kani::proof]
#[kani::unwind(4)]
fn c17_combinations_steps_len0() {
    steps_normal::<0>();
}
#[kani::proof]
#[kani::unwind(5)]
fn c17_combinations_steps_len1() {
    steps_normal::<1>();
    let one = [Some(7u8)];
    let c = Combinations::new(&one);
    assert!(c.idx1 == 0 && c.idx2 == 1, "new() starts at (0,1)");
}
#[kani::proof]
#[kani::unwind(7)]
fn c17_combinations_steps_len2() {
    steps_normal::<2>();
}
#[kani::proof]
#[kani::unwind(10)]
fn c17_combinations_steps_len3() {
    steps_normal::<3>();
}
#[kani::proof]
#[kani::unwind(14)]
fn c17_combinations_steps_len4() {
    steps_normal::<4>();
}
#[kani::proof]
#[kani::unwind(5)]
fn c17_last_row_steps_len1() {
    steps_last_row::<1>();
}
#[kani::proof]
#[kani::unwind(6)]
fn c17_last_row_steps_len2() {
    steps_last_row::<2>();
}
#[kani::proof]
#[kani::unwind(7)]
fn c17_last_row_steps_len3() {
    steps_last_row::<3>();
}
#[kani::proof]
#[kani::unwind(8)]
fn c17_last_row_steps_len4() {
    steps_last_row::<4>();
}

/// whole enumeration for <= 2 slots with a symbolic pattern (the composed behaviour, small enough)
#[kani::proof]
#[kani::unwind(5)]
fn c17_combinations_whole_len1() {
    let alive: bool = kani::any();
    let inner = [if alive { Some(1u8) } else { None }];
    let mut c = Combinations::new(&inner);
    assert!(c.next().is_none() && c.next().is_none(), "a single slot has no pair");
    kani::cover!(alive, "live single slot");
}

#[kani::proof]
#[kani::unwind(7)]
fn c17_twin_must_fail() {
    steps_normal::<2>();
    assert!(false, "twin: reachability witness");
}

/// from any exhausted cursor (idx1 >= len, idx2 arbitrary) `next()` is `None` and changes nothing
#[kani::proof]
#[kani::unwind(4)]
fn c17_exhausted_stays_exhausted() {
    let inner: [Option<u8>; 3] = kani::any();
    let a: usize = kani::any();
    let b: usize = kani::any();
    kani::assume(a >= 3 && a < 1000 && b < 1000);
    let mut c = Combinations {
        inner: &inner,
        idx1: a,
        idx2: b,
    };
    assert!(c.next().is_none());
    assert!(c.idx1 == a && c.idx2 == b);
    kani::cover!(b < 3, "second index still inside");
}
