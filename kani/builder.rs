//! Builder-level harnesses (compiled inside `hpo::ontology::builder`): C08 release-date header,
//! C01/C15 `add_parent`, C15 `annotate_*`.
use super::*;
#[allow(unused_imports)]
use crate::annotations::AnnotationId as _;
use crate::ontology::verif_kani::{small_arena_cap, stub_random_state};
use crate::term::group::verif_kani::subset;
use crate::term::internal::verif_kani::term_lean;

/// a builder in any typestate over a small arena, no annotations
pub(crate) fn small_builder<T>(table: usize, cap: usize) -> Builder<T> {
    Builder::<T> {
        hpo_terms: small_arena_cap(table, cap),
        genes: HashMap::default(),
        omim_diseases: HashMap::default(),
        orpha_diseases: HashMap::default(),
        hpo_version: (0u16, 0u8, 0u8),
        categories: HpoGroup::default(),
        modifier: HpoGroup::default(),
        state: PhantomData,
    }
}

// ---------------------------------------------------------------------------------------------
// C08: release date header
// ---------------------------------------------------------------------------------------------
/// v1 carries no release version (0,0,0; payload offset 0); v2/v3: year u16 BE, month, day, offset 4;
/// fewer than 4 bytes is an error
#[kani::proof]
#[kani::stub(std::hash::RandomState::new, stub_random_state)]
#[kani::unwind(4)]
fn c08_release_date_header() {
    let mut b: Builder<LooseCollection> = small_builder(2, 1);
    let data: [u8; 6] = kani::any();
    let len: usize = kani::any();
    kani::assume(len <= 6);
    let v: u8 = kani::any();
    kani::assume(v >= 1 && v <= 3);
    let version = BinaryVersion::try_from(v).unwrap();
    b.set_hpo_version((1999, 9, 9));
    let r = b.hpo_version_from_bytes(&Bytes::new(&data[..len], version));
    if v == 1 {
        assert!(matches!(r, Ok(0)), "v1: nothing consumed");
        assert!(b.hpo_version == (0, 0, 0), "v1 carries no release version");
        kani::cover!(len == 0, "v1 with empty payload");
    } else if len < 4 {
        assert!(matches!(r, Err(HpoError::ParseBinaryError)));
        kani::cover!(len == 3, "three bytes are not a date");
    } else {
        assert!(matches!(r, Ok(4)), "four bytes consumed");
        assert!(b.hpo_version == (((data[0] as u16) << 8) | data[1] as u16, data[2], data[3]), "year big-endian, month, day");
        kani::cover!(v == 3 && data[0] == 7 && data[1] == 231, "year 2023 in a v3 file");
    }
    core::mem::forget(r);
    core::mem::forget(b);
}
