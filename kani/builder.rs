//! Builder-level harnesses (compiled inside `hpo::ontology::builder`): C08 release-date header,
//! C01/C15 `add_parent`, C15 `annotate_*`.
use super::*;
#[allow(unused_imports)]
use crate::annotations::AnnotationId as _;
use crate::ontology::verif_kani::{small_arena_cap, stub_random_state};
use crate::term::group::verif_kani::subset;
use crate::term::internal::verif_kani::term_lean;

/// a builder in any typestate over a small arena, no annotations
pub(crate) fn small_builder<T>(table: usize, cap: usize) -> Builder<T> {
    Builder::<T> {
        hpo_terms: small_arena_cap(table, cap),
        genes: HashMap::default(),
        omim_diseases: HashMap::default(),
        orpha_diseases: HashMap::default(),
        hpo_version: (0u16, 0u8, 0u8),
        categories: HpoGroup::default(),
        modifier: HpoGroup::default(),
        state: PhantomData,
    }
}

// ---------------------------------------------------------------------------------------------
// C08: release date header
// ---------------------------------------------------------------------------------------------
/// v1 carries no release version (0,0,0; payload offset 0); v2/v3: year u16 BE, month, day, offset 4;
/// fewer than 4 bytes is an error
#[kani::proof]
#[kani::stub(std::hash::RandomState::new, stub_random_state)]
#[kani::unwind(4)]
fn c08_release_date_header() {
    let mut b: Builder<LooseCollection> = small_builder(2, 1);
    let data: [u8; 6] = kani::any();
    let len: usize = kani::any();
    kani::assume(len <= 6);
    let v: u8 = kani::any();
    kani::assume(v >= 1 && v <= 3);
    let version = BinaryVersion::try_from(v).unwrap();
    b.set_hpo_version((1999, 9, 9));
    let r = b.hpo_version_from_bytes(&Bytes::new(&data[..len], version));
    if v == 1 {
        assert!(matches!(r, Ok(0)), "v1: nothing consumed");
        assert!(b.hpo_version == (0, 0, 0), "v1 carries no release version");
        kani::cover!(len == 0, "v1 with empty payload");
    } else if len < 4 {
        assert!(matches!(r, Err(HpoError::ParseBinaryError)));
        kani::cover!(len == 3, "three bytes are not a date");
    } else {
        assert!(matches!(r, Ok(4)), "four bytes consumed");
        assert!(b.hpo_version == (((data[0] as u16) << 8) | data[1] as u16, data[2], data[3]), "year big-endian, month, day");
        kani::cover!(v == 3 && data[0] == 7 && data[1] == 231, "year 2023 in a v3 file");
    }
    core::mem::forget(r);
    core::mem::forget(b);
}

// ---------------------------------------------------------------------------------------------
// C01 / C15: add_parent
// ---------------------------------------------------------------------------------------------
fn none() -> HpoGroup {
    HpoGroup::default()
}
fn tid(n: u32) -> HpoTermId {
    HpoTermId::from_u32(n)
}
fn is_subset_of(g: &HpoGroup, ids: &[u32], mask: u8) -> bool {
    crate::ontology::verif_kani::group_is_subset(g, ids, mask)
}

/// `add_parent(p, c)` on a builder holding the terms 1 and 2 (ids 5 and 6 are absent), with a
/// symbolic pre-state of the relation groups. PP / CP: is the parent / child id present.
///  - Ok iff both present; then exactly `c` joined children(p) and `p` joined parents(c);
///  - Err(DoesNotExist) otherwise and then NO group of any term changed (C15);
///  - in every case nothing else is touched (C01: child relation is the exact inverse).
fn add_parent_h<const PP: bool, const CP: bool>(unchecked: bool) {
    let mut b: Builder<AllTerms> = small_builder(16, 3);
    // candidate ids, ascending: children(1) ⊆ {2,3,6}, parents(2) ⊆ {1,4,5}
    let kids: [u32; 3] = [2, 3, 6];
    let pars: [u32; 3] = [1, 4, 5];
    let mk: u8 = kani::any();
    let mp: u8 = kani::any();
    kani::assume(mk < 8 && mp < 8);
    b.hpo_terms.insert(term_lean(1, none(), none(), subset(&kids, mk)));
    b.hpo_terms.insert(term_lean(2, subset(&pars, mp), none(), none()));
    let p: u32 = if PP { 1 } else { 5 };
    let c: u32 = if CP { 2 } else { 6 };
    let ok = if unchecked {
        b.add_parent_unchecked(p, c);
        true
    } else {
        let r = b.add_parent(p, c);
        let ok = r.is_ok();
        if !ok {
            assert!(matches!(r, Err(HpoError::DoesNotExist)));
        }
        core::mem::forget(r);
        ok
    };
    assert!(ok == (PP && CP), "Ok iff both terms exist");
    let t1 = b.hpo_terms.get(tid(1)).unwrap();
    let t2 = b.hpo_terms.get(tid(2)).unwrap();
    if ok {
        // c == 2 joined children(1); p == 1 joined parents(2)
        assert!(is_subset_of(t1.children(), &kids, mk | 0b001), "child recorded on the parent");
        assert!(is_subset_of(t2.parents(), &pars, mp | 0b001), "parent recorded on the child");
        kani::cover!(mk & 1 == 0 && mp & 1 == 0, "opt: new link");
        kani::cover!(mk & 1 == 1 && mp & 1 == 1, "opt: link already present");
    } else {
        assert!(is_subset_of(t1.children(), &kids, mk), "rejected call: children of the parent unchanged");
        assert!(is_subset_of(t2.parents(), &pars, mp), "rejected call: parents of the child unchanged");
        kani::cover!(mk != 0 && mp != 0, "opt: rejected call on a populated builder");
    }
    assert!(t1.parents().is_empty() && t1.all_parents().is_empty(), "nothing else touched (term 1)");
    assert!(t2.children().is_empty() && t2.all_parents().is_empty(), "nothing else touched (term 2)");
    assert!(b.hpo_terms.len() == 2, "no term created");
    kani::cover!(mk != 0 && mp != 0, "call returned on a populated builder");
    core::mem::forget(b);
}

#[kani::proof]
#[kani::stub(std::hash::RandomState::new, stub_random_state)]
#[kani::unwind(6)]
fn c15_add_parent_both_present() {
    add_parent_h::<true, true>(false);
}
#[kani::proof]
#[kani::stub(std::hash::RandomState::new, stub_random_state)]
#[kani::unwind(6)]
fn c15_add_parent_child_absent() {
    add_parent_h::<true, false>(false);
}
#[kani::proof]
#[kani::stub(std::hash::RandomState::new, stub_random_state)]
#[kani::unwind(6)]
fn c15_add_parent_parent_absent() {
    add_parent_h::<false, true>(false);
}
#[kani::proof]
#[kani::stub(std::hash::RandomState::new, stub_random_state)]
#[kani::unwind(6)]
fn c15_add_parent_both_absent() {
    add_parent_h::<false, false>(false);
}
#[kani::proof]
#[kani::stub(std::hash::RandomState::new, stub_random_state)]
#[kani::unwind(6)]
fn c01_add_parent_unchecked() {
    add_parent_h::<true, true>(true);
}
#[kani::proof]
#[kani::stub(std::hash::RandomState::new, stub_random_state)]
#[kani::unwind(6)]
fn c01_add_parent_inverse_relation() {
    add_parent_h::<true, true>(false);
}

// ---------------------------------------------------------------------------------------------
// C15: annotate_* with a present / absent term
// ---------------------------------------------------------------------------------------------
#[derive(Clone, Copy)]
enum Kind {
    Gene,
    Omim,
    Orpha,
}

/// builder with the single term 3 (no ancestors), empty record maps; annotate record 7 "x" to
/// term 3 (present) or 9 (absent)
fn annotate_h<const PRESENT: bool>(kind: Kind) {
    annotate_t::<PRESENT, 16>(kind)
}

/// TABLE = size of the stub id table. With TABLE = 8 the absent id 9 lies BEYOND the table (the
/// analogue of an id >= 10^7 in the real arena): that lookup fails on the length check alone, which
/// is constant for symex, so the harness is cheap; with TABLE = 16 the absent id is an empty cell
/// inside the table (symex does not finish, see DESIGN D3).
fn annotate_t<const PRESENT: bool, const TABLE: usize>(kind: Kind) {
    let mut b: Builder<ConnectedTerms> = small_builder(TABLE, 2);
    b.hpo_terms.insert(term_lean(3, none(), none(), none()));
    let t: u32 = if PRESENT { 3 } else { 9 };
    let r = match kind {
        Kind::Gene => b.annotate_gene(GeneId::from(7u32), "x", tid(t)),
        Kind::Omim => b.annotate_omim_disease(OmimDiseaseId::from(7u32), "x", tid(t)),
        Kind::Orpha => b.annotate_orpha_disease(OrphaDiseaseId::from(7u32), "x", tid(t)),
    };
    let ok = r.is_ok();
    core::mem::forget(r);
    assert!(ok == PRESENT, "Ok iff the term exists");
    kani::cover!(true, "annotate call returned");
    let (n_g, n_o, n_r) = (b.genes.len(), b.omim_diseases.len(), b.orpha_diseases.len());
    let term = b.hpo_terms.get(tid(3)).unwrap();
    let (tg, to, tr) = (term.genes().len(), term.omim_diseases().len(), term.orpha_diseases().len());
    if ok {
        let expect = match kind {
            Kind::Gene => (1, 0, 0),
            Kind::Omim => (0, 1, 0),
            Kind::Orpha => (0, 0, 1),
        };
        assert!((n_g, n_o, n_r) == expect, "exactly one record of the addressed kind");
        assert!((tg, to, tr) == expect, "the term is linked to it, kinds do not leak");
        kani::cover!(true, "opt: annotation accepted");
    } else {
        assert!((n_g, n_o, n_r) == (0, 0, 0), "rejected call creates no record");
        assert!((tg, to, tr) == (0, 0, 0), "rejected call links nothing");
        kani::cover!(true, "opt: annotation rejected");
    }
    core::mem::forget(b);
}

#[kani::proof]
#[kani::stub(std::hash::RandomState::new, stub_random_state)]
#[kani::unwind(6)]
fn c15_annotate_gene_present() {
    annotate_h::<true>(Kind::Gene);
}
#[kani::proof]
#[kani::stub(std::hash::RandomState::new, stub_random_state)]
#[kani::unwind(6)]
fn c15_annotate_gene_absent() {
    annotate_h::<false>(Kind::Gene);
}
#[kani::proof]
#[kani::stub(std::hash::RandomState::new, stub_random_state)]
#[kani::unwind(6)]
fn c15_annotate_omim_absent() {
    annotate_h::<false>(Kind::Omim);
}
#[kani::proof]
#[kani::stub(std::hash::RandomState::new, stub_random_state)]
#[kani::unwind(6)]
fn c15_annotate_orpha_absent() {
    annotate_h::<false>(Kind::Orpha);
}
#[kani::proof]
#[kani::stub(std::hash::RandomState::new, stub_random_state)]
#[kani::unwind(6)]
fn c15_annotate_orpha_present() {
    annotate_h::<true>(Kind::Orpha);
}

#[kani::proof]
#[kani::stub(std::hash::RandomState::new, stub_random_state)]
#[kani::unwind(6)]
fn c15_annotate_gene_beyond_table() {
    annotate_t::<false, 8>(Kind::Gene);
}
#[kani::proof]
#[kani::stub(std::hash::RandomState::new, stub_random_state)]
#[kani::unwind(6)]
fn c15_annotate_omim_beyond_table() {
    annotate_t::<false, 8>(Kind::Omim);
}
#[kani::proof]
#[kani::stub(std::hash::RandomState::new, stub_random_state)]
#[kani::unwind(6)]
fn c15_annotate_orpha_beyond_table() {
    annotate_t::<false, 8>(Kind::Orpha);
}

#[kani::proof]
#[kani::stub(std::hash::RandomState::new, stub_random_state)]
#[kani::unwind(6)]
fn c15_twin_must_fail() {
    add_parent_h::<true, true>(false);
    assert!(false, "twin: reachability witness");
}
#[kani::proof]
#[kani::stub(std::hash::RandomState::new, stub_random_state)]
#[kani::unwind(6)]
fn c01_twin_must_fail() {
    add_parent_h::<true, true>(true);
    assert!(false, "twin: reachability witness");
}

// ---------------------------------------------------------------------------------------------
// C01: one step of the ancestor-closure computation
// ---------------------------------------------------------------------------------------------

/// `create_cache_of_grandparents(3)` from a directly built state in which the parents of term 3 are
/// already cached. Shape concrete, content symbolic: parents(3) = {1,2} (or {2}, {} per instance);
/// term 1 has NA ancestors and term 2 has NB ancestors whose ids are arbitrary u32 (strictly
/// ascending inside each set; they may coincide across the two sets, which is the diamond case, and
/// may include the other parent). Their ancestor sets are also their direct parents, so they count
/// as cached without a symbolic test (a symbolic cachedness makes symex walk the recursion with
/// symbolic arena indices: not finished in 25 min).
/// Post: all_parents(3) = parents(3) ∪ ancestors of those parents - as a strictly ascending set,
/// decided extensionally with an arbitrary probe id - never 3 itself; nothing else changed.
fn cache_step<const PM: u8, const NA: usize, const NB: usize>() {
    let mut b: Builder<AllTerms> = small_builder(16, 4);
    let a: [u32; NA] = kani::any();
    let bb: [u32; NB] = kani::any();
    let mut i = 0;
    while i < NA {
        kani::assume(a[i] != 1 && a[i] != 3 && (i == 0 || a[i - 1] < a[i]));
        i += 1;
    }
    let mut i = 0;
    while i < NB {
        kani::assume(bb[i] != 2 && bb[i] != 3 && (i == 0 || bb[i - 1] < bb[i]));
        i += 1;
    }
    let full_a: u8 = ((1u16 << NA) - 1) as u8;
    let full_b: u8 = ((1u16 << NB) - 1) as u8;
    b.hpo_terms.insert(term_lean(1, subset(&a, full_a), subset(&a, full_a), none()));
    b.hpo_terms.insert(term_lean(2, subset(&bb, full_b), subset(&bb, full_b), none()));
    b.hpo_terms.insert(term_lean(3, subset(&[1u32, 2], PM), none(), none()));
    b.create_cache_of_grandparents(tid(3));
    let t3 = b.hpo_terms.get(tid(3)).unwrap();
    let got = t3.all_parents();
    assert!(crate::term::group::verif_kani::is_sorted_set(got), "ancestor set strictly ascending");
    let p: u32 = kani::any();
    let mut expected = (PM & 1 != 0 && p == 1) || (PM & 2 != 0 && p == 2);
    let mut i = 0;
    while i < NA {
        if PM & 1 != 0 && a[i] == p {
            expected = true;
        }
        i += 1;
    }
    let mut i = 0;
    while i < NB {
        if PM & 2 != 0 && bb[i] == p {
            expected = true;
        }
        i += 1;
    }
    assert!(got.contains(&tid(p)) == expected, "ancestors = parents plus the parents' ancestors: nothing missing, nothing else");
    assert!(!got.contains(&tid(3)), "never the term itself");
    assert!(is_subset_of(t3.parents(), &[1, 2], PM), "direct parents untouched");
    assert!(t3.children().is_empty());
    assert!(t3.parents_cached(), "the term counts as cached afterwards");
    let t1 = b.hpo_terms.get(tid(1)).unwrap();
    assert!(is_subset_of(t1.all_parents(), &a, full_a) && is_subset_of(t1.parents(), &a, full_a), "parent 1 untouched");
    let t2 = b.hpo_terms.get(tid(2)).unwrap();
    assert!(is_subset_of(t2.all_parents(), &bb, full_b) && is_subset_of(t2.parents(), &bb, full_b), "parent 2 untouched");
    kani::cover!(NA > 0 && NB > 0 && a[0] == bb[0], "opt: shared grandparent (diamond)");
    kani::cover!(NA > 0 && NB > 0 && a[NA - 1] == 2, "opt: one parent is also an ancestor of the other");
    kani::cover!(expected && p > 3, "opt: probe is an inherited ancestor");
    kani::cover!(!expected, "probe is not an ancestor");
    core::mem::forget(b);
}

#[kani::proof]
#[kani::stub(std::hash::RandomState::new, stub_random_state)]
#[kani::unwind(8)]
fn c01_cache_step_two_parents_2_2() {
    cache_step::<0b11, 2, 2>();
}
#[kani::proof]
#[kani::stub(std::hash::RandomState::new, stub_random_state)]
#[kani::unwind(8)]
fn c01_cache_step_two_parents_1_1() {
    cache_step::<0b11, 1, 1>();
}
#[kani::proof]
#[kani::stub(std::hash::RandomState::new, stub_random_state)]
#[kani::unwind(8)]
fn c01_cache_step_two_parents_2_0() {
    cache_step::<0b11, 2, 0>();
}
#[kani::proof]
#[kani::stub(std::hash::RandomState::new, stub_random_state)]
#[kani::unwind(8)]
fn c01_cache_step_second_parent_only() {
    cache_step::<0b10, 2, 2>();
}
#[kani::proof]
#[kani::stub(std::hash::RandomState::new, stub_random_state)]
#[kani::unwind(8)]
fn c01_cache_step_root() {
    cache_step::<0b00, 1, 1>();
}

/// two-level step: the parent (2) of t (3) is NOT cached yet (it has the direct parent 1 but an empty
/// ancestor set), so the call has to recurse once: 1 <- 2 <- 3, ancestors(1) = two arbitrary ids
#[kani::proof]
#[kani::stub(std::hash::RandomState::new, stub_random_state)]
#[kani::unwind(8)]
fn c01_cache_step_recursive_chain() {
    let mut b: Builder<AllTerms> = small_builder(16, 4);
    let a: [u32; 2] = kani::any();
    kani::assume(a[0] < a[1] && a[0] > 3);
    b.hpo_terms.insert(term_lean(1, subset(&a, 3), subset(&a, 3), none()));
    b.hpo_terms.insert(term_lean(2, subset(&[1u32], 1), none(), none()));
    b.hpo_terms.insert(term_lean(3, subset(&[2u32], 1), none(), none()));
    b.create_cache_of_grandparents(tid(3));
    let all: [u32; 4] = [1, 2, a[0], a[1]];
    let t3 = b.hpo_terms.get(tid(3)).unwrap();
    assert!(is_subset_of(t3.all_parents(), &all, 0b1111), "closure over two levels");
    let t2 = b.hpo_terms.get(tid(2)).unwrap();
    assert!(is_subset_of(t2.all_parents(), &all, 0b1101), "the uncached parent was completed on the way");
    kani::cover!(a[1] == u32::MAX, "largest id as an ancestor");
    core::mem::forget(b);
}


// ---------------------------------------------------------------------------------------------
// C03: wiring of calculate_information_content (which record count / which per-term set feeds which kind)
// ---------------------------------------------------------------------------------------------
fn model_ln(x: f32) -> f32 {
    x - 1.0
}

/// One term; record maps and per-term sets of *different* sizes per kind, built with concrete keys:
/// genes: 1 record / term linked to 1; OMIM: none; ORPHA: 2 records / term linked to 1.
/// After `calculate_information_content` each kind's IC must be -ln(n/N) of ITS OWN counts
/// (ln is the deterministic model x-1): gene 0, omim 0, orpha -(0.5 - 1) = 0.5.
#[kani::proof]
#[kani::stub(std::hash::RandomState::new, stub_random_state)]
#[kani::stub(f32::ln, model_ln)]
#[kani::unwind(7)]
fn c03_wiring_counts_per_kind() {
    let mut b: Builder<ConnectedTerms> = small_builder(8, 2);
    b.hpo_terms.insert(term_lean(3, none(), none(), none()));
    b.add_gene("g", GeneId::from(7u32));
    b.add_orpha_disease("o1", OrphaDiseaseId::from(1u32));
    b.add_orpha_disease("o2", OrphaDiseaseId::from(2u32));
    {
        let t = b.hpo_terms.get_mut(tid(3)).unwrap();
        t.add_gene(GeneId::from(7u32));
        t.add_orpha_disease(OrphaDiseaseId::from(2u32));
    }
    let b2 = b.calculate_information_content().unwrap();
    let ic = b2.hpo_terms.get(tid(3)).unwrap().information_content();
    assert!(ic.gene() == 0.0, "gene IC from 1 of 1 genes");
    assert!(ic.omim_disease() == 0.0, "no OMIM records: IC 0");
    assert!(ic.orpha_disease() == 0.5, "ORPHA IC from ITS OWN counts: 1 of 2 records");
    kani::cover!(true, "information content computed for the three kinds");
    core::mem::forget(b2);
}
