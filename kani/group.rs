//! C12 — HpoGroup behaves as a sorted set (harnesses compiled inside `hpo::term::group`).
use super::*;

pub(crate) fn id(n: u32) -> HpoTermId {
    HpoTermId::from_u32(n)
}

/// strictly ascending, duplicate free
pub(crate) fn is_sorted_set(g: &HpoGroup) -> bool {
    let mut i = 1;
    while i < g.len() {
        if !(g.ids[i - 1] < g.ids[i]) {
            return false;
        }
        i += 1;
    }
    true
}

/// iteration agrees with `get(i)` and `len()`
fn iter_agrees(g: &HpoGroup) -> bool {
    let mut n = 0;
    for x in g.iter() {
        match g.get(n) {
            Some(y) => {
                if *y != x {
                    return false;
                }
            }
            None => return false,
        }
        n += 1;
    }
    n == g.len() && g.get(n).is_none() && (g.is_empty() == (n == 0))
}

// ---------------------------------------------------------------------------------------------
// insertion
// ---------------------------------------------------------------------------------------------

/// K arbitrary u32 inserted in arbitrary order: return values, len, membership (arbitrary probe),
/// order, iteration.
fn insert_k<const K: usize>() {
    let v: [u32; K] = kani::any();
    let mut g = HpoGroup::new();
    let mut distinct = 0usize;
    let mut i = 0;
    while i < K {
        let mut seen = false;
        let mut j = 0;
        while j < i {
            if v[j] == v[i] {
                seen = true;
            }
            j += 1;
        }
        let newly = g.insert(v[i]);
        assert!(newly == !seen, "insert reports whether the id was new");
        if !seen {
            distinct += 1;
        }
        assert!(g.len() == distinct, "len equals number of distinct ids");
        i += 1;
    }
    assert!(is_sorted_set(&g), "strictly ascending");
    assert!(iter_agrees(&g), "iter/get/len agree");
    let probe: u32 = kani::any();
    let mut member = false;
    let mut j = 0;
    while j < K {
        if v[j] == probe {
            member = true;
        }
        j += 1;
    }
    assert!(g.contains(&id(probe)) == member, "contains == membership in the inserted set");
    kani::cover!(distinct == K, "all distinct");
    kani::cover!(K > 1 && distinct < K, "opt: duplicate inserted");
    kani::cover!(K > 1 && v[K - 1] < v[0], "opt: descending insertion order");
}

#[kani::proof]
#[kani::unwind(8)]
fn c12_insert_1() {
    insert_k::<1>();
}
#[kani::proof]
#[kani::unwind(8)]
fn c12_insert_2() {
    insert_k::<2>();
}
#[kani::proof]
#[kani::unwind(8)]
fn c12_insert_3() {
    insert_k::<3>();
}
#[kani::proof]
#[kani::unwind(8)]
fn c12_insert_4() {
    insert_k::<4>();
}
#[kani::proof]
#[kani::unwind(8)]
fn c12_insert_5() {
    insert_k::<5>();
}

/// one insertion step from an arbitrary valid state of size S (inductive step):
/// pre = any strictly ascending group of S ids, post = set semantics of one insert.
fn insert_step<const S: usize>() {
    let v: [u32; S] = kani::any();
    let mut g = HpoGroup::new();
    let mut i = 0;
    while i < S {
        if i > 0 {
            kani::assume(v[i - 1] < v[i]);
        }
        g.ids.push(id(v[i]));
        i += 1;
    }
    let x: u32 = kani::any();
    let mut member = false;
    let mut j = 0;
    while j < S {
        if v[j] == x {
            member = true;
        }
        j += 1;
    }
    let newly = g.insert(x);
    assert!(newly == !member);
    assert!(g.len() == S + (if member { 0 } else { 1 }));
    assert!(is_sorted_set(&g));
    assert!(g.contains(&id(x)));
    let mut j = 0;
    while j < S {
        assert!(g.contains(&id(v[j])), "old members are kept");
        j += 1;
    }
    let probe: u32 = kani::any();
    let mut pm = probe == x;
    let mut j = 0;
    while j < S {
        if v[j] == probe {
            pm = true;
        }
        j += 1;
    }
    assert!(g.contains(&id(probe)) == pm, "nothing else became a member");
    kani::cover!(!member && S > 0 && x < v[0], "opt: inserted at front");
    kani::cover!(!member, "new id inserted");
}

#[kani::proof]
#[kani::unwind(8)]
fn c12_insert_step_from_3() {
    insert_step::<3>();
}
#[kani::proof]
#[kani::unwind(8)]
fn c12_insert_step_from_5() {
    insert_step::<5>();
}

// ---------------------------------------------------------------------------------------------
// constructors
// ---------------------------------------------------------------------------------------------
fn check_is_set_of(g: &HpoGroup, v: &[u32]) {
    assert!(is_sorted_set(g));
    let mut distinct = 0;
    let mut i = 0;
    while i < v.len() {
        let mut seen = false;
        let mut j = 0;
        while j < i {
            if v[j] == v[i] {
                seen = true;
            }
            j += 1;
        }
        if !seen {
            distinct += 1;
        }
        assert!(g.contains(&id(v[i])));
        i += 1;
    }
    assert!(g.len() == distinct);
    let probe: u32 = kani::any();
    let mut pm = false;
    let mut j = 0;
    while j < v.len() {
        if v[j] == probe {
            pm = true;
        }
        j += 1;
    }
    assert!(g.contains(&id(probe)) == pm);
}

#[kani::proof]
#[kani::unwind(8)]
fn c12_from_vec_termid_3() {
    let v: [u32; 3] = kani::any();
    let g = HpoGroup::from(vec![id(v[0]), id(v[1]), id(v[2])]);
    check_is_set_of(&g, &v);
    kani::cover!(v[0] > v[1] && v[1] > v[2], "descending input");
}

#[kani::proof]
#[kani::unwind(8)]
fn c12_from_vec_u32_3() {
    let v: [u32; 3] = kani::any();
    let g = HpoGroup::from(vec![v[0], v[1], v[2]]);
    check_is_set_of(&g, &v);
    kani::cover!(v[0] == v[2], "duplicate input");
}

#[kani::proof]
#[kani::unwind(8)]
fn c12_from_iter_termid_3() {
    let v: [u32; 3] = kani::any();
    let arr = [id(v[0]), id(v[1]), id(v[2])];
    let g: HpoGroup = arr.iter().copied().collect();
    check_is_set_of(&g, &v);
    kani::cover!(v[0] > v[1], "unsorted input");
}

// ---------------------------------------------------------------------------------------------
// set algebra over a symbolic universe
// ---------------------------------------------------------------------------------------------

/// strictly ascending symbolic universe of U ids
pub(crate) fn universe<const U: usize>() -> [u32; U] {
    let u: [u32; U] = kani::any();
    let mut i = 1;
    while i < U {
        kani::assume(u[i - 1] < u[i]);
        i += 1;
    }
    u
}

/// the subset of `u` selected by `mask`, built directly (a valid sorted group)
pub(crate) fn subset<const U: usize>(u: &[u32; U], mask: u8) -> HpoGroup {
    let mut g = HpoGroup::new();
    let mut i = 0;
    while i < U {
        if mask >> i & 1 == 1 {
            g.ids.push(id(u[i]));
        }
        i += 1;
    }
    g
}

/// `g` is exactly the subset of `u` selected by `mask`
pub(crate) fn assert_is_subset<const U: usize>(g: &HpoGroup, u: &[u32; U], mask: u8) {
    assert!(is_sorted_set(g), "result strictly ascending");
    let mut n = 0;
    let mut i = 0;
    while i < U {
        let bit = mask >> i & 1 == 1;
        assert!(g.contains(&id(u[i])) == bit, "membership equals set-theoretic result");
        if bit {
            n += 1;
        }
        i += 1;
    }
    assert!(g.len() == n, "length equals cardinality of the set-theoretic result");
    // positional check (does not rely on binary search in `contains`)
    let mut k = 0;
    let mut i = 0;
    while i < U {
        if mask >> i & 1 == 1 {
            assert!(g.ids[k] == id(u[i]), "k-th element is the k-th smallest member");
            k += 1;
        }
        i += 1;
    }
}

fn algebra<const U: usize>() {
    let u = universe::<U>();
    let full: u8 = ((1u16 << U) - 1) as u8;
    let ma: u8 = kani::any();
    let mb: u8 = kani::any();
    kani::assume(ma <= full && mb <= full);
    let a = subset(&u, ma);
    let b = subset(&u, mb);
    let or = &a | &b;
    assert_is_subset(&or, &u, ma | mb);
    let and = &a & &b;
    assert_is_subset(&and, &u, ma & mb);
    kani::cover!(ma & mb != 0 && ma != mb && ma.count_ones() == mb.count_ones(), "opt: equal length, overlapping, different");
    kani::cover!(ma & mb == 0 && ma != 0 && mb != 0, "disjoint non-empty operands");
    kani::cover!(ma == 0 || mb == 0, "an empty operand");
}

#[kani::proof]
#[kani::unwind(8)]
fn c12_algebra_universe3() {
    algebra::<3>();
}

#[kani::proof]
#[kani::unwind(8)]
fn c12_bitor_universe4() {
    let u = universe::<4>();
    let ma: u8 = kani::any();
    let mb: u8 = kani::any();
    kani::assume(ma <= 15 && mb <= 15);
    let a = subset(&u, ma);
    let b = subset(&u, mb);
    let or = &a | &b;
    assert_is_subset(&or, &u, ma | mb);
    kani::cover!(ma == 0b0101 && mb == 0b1010, "interleaved operands");
    kani::cover!(ma == mb && ma == 15, "equal full operands");
}

#[kani::proof]
#[kani::unwind(8)]
fn c12_bitand_universe4() {
    let u = universe::<4>();
    let ma: u8 = kani::any();
    let mb: u8 = kani::any();
    kani::assume(ma <= 15 && mb <= 15);
    let a = subset(&u, ma);
    let b = subset(&u, mb);
    let and = &a & &b;
    assert_is_subset(&and, &u, ma & mb);
    kani::cover!(ma.count_ones() == mb.count_ones() && ma != mb && ma & mb != 0, "equal-length branch with partial overlap");
    kani::cover!(ma.count_ones() > mb.count_ones(), "left operand larger");
    kani::cover!(ma.count_ones() < mb.count_ones(), "right operand larger");
}

/// larger universe for the union (result has up to 6 = shim capacity elements)
#[kani::proof]
#[kani::unwind(9)]
fn c12_bitor_universe6() {
    let u = universe::<6>();
    let ma: u8 = kani::any();
    let mb: u8 = kani::any();
    kani::assume(ma <= 63 && mb <= 63);
    let a = subset(&u, ma);
    let b = subset(&u, mb);
    let or = &a | &b;
    assert_is_subset(&or, &u, ma | mb);
    kani::cover!((ma | mb) == 63 && ma & mb == 0, "disjoint operands filling the universe");
}

#[kani::proof]
#[kani::unwind(9)]
fn c12_bitand_universe6() {
    let u = universe::<6>();
    let ma: u8 = kani::any();
    let mb: u8 = kani::any();
    kani::assume(ma <= 63 && mb <= 63);
    let a = subset(&u, ma);
    let b = subset(&u, mb);
    let and = &a & &b;
    assert_is_subset(&and, &u, ma & mb);
    kani::cover!(ma.count_ones() == 3 && mb.count_ones() == 3 && ma & mb != 0 && ma != mb, "3 vs 3 partial overlap");
}

/// `a | id`, `&a + id`, `a + id` : union with a single (arbitrary u32) id, `a` = any subset of an
/// ascending symbolic universe of U ids
fn add_single_id<const U: usize>() {
    let u = universe::<U>();
    let ma: u8 = kani::any();
    kani::assume((ma as u16) < (1 << U));
    let a = subset(&u, ma);
    let x: u32 = kani::any();
    let r1 = &a | id(x);
    let r2 = &a + id(x);
    let r3 = a.clone() + id(x);
    for r in [&r1, &r2, &r3] {
        assert!(is_sorted_set(r));
        assert!(r.contains(&id(x)));
        let mut was = false;
        let mut i = 0;
        while i < U {
            let bit = ma >> i & 1 == 1;
            if u[i] == x {
                if bit {
                    was = true;
                }
            } else {
                assert!(r.contains(&id(u[i])) == bit);
            }
            i += 1;
        }
        assert!(r.len() == ma.count_ones() as usize + if was { 0 } else { 1 });
    }
    // operand unchanged
    assert_is_subset(&a, &u, ma);
    kani::cover!(ma == ((1u16 << U) - 1) as u8 && x > u[0] && x < u[U - 1], "new id lands inside a full group");
    kani::cover!(ma & 1 == 1 && x == u[0], "id already present");
}

#[kani::proof]
#[kani::unwind(8)]
fn c12_add_single_id_u3() {
    add_single_id::<3>();
}
#[kani::proof]
#[kani::unwind(8)]
fn c12_add_single_id() {
    add_single_id::<4>();
}

/// owned-operand impls delegate to the by-reference ones
#[kani::proof]
#[kani::unwind(8)]
fn c12_owned_operands() {
    let u = universe::<3>();
    let ma: u8 = kani::any();
    let mb: u8 = kani::any();
    kani::assume(ma <= 7 && mb <= 7);
    let a = subset(&u, ma);
    let b = subset(&u, mb);
    assert_is_subset(&(a.clone() | b.clone()), &u, ma | mb);
    assert_is_subset(&(a.clone() | &b), &u, ma | mb);
    assert_is_subset(&(a.clone() & b.clone()), &u, ma & mb);
    assert_is_subset(&(a.clone() & &b), &u, ma & mb);
    kani::cover!(ma == 0b011 && mb == 0b110, "overlapping operands");
}

/// as_bytes: big-endian ids in ascending order
#[kani::proof]
#[kani::unwind(8)]
fn c12_as_bytes() {
    let u = universe::<3>();
    let ma: u8 = kani::any();
    kani::assume(ma <= 7);
    let a = subset(&u, ma);
    let bytes = a.as_bytes();
    assert!(bytes.len() == 4 * a.len());
    let mut k = 0;
    let mut i = 0;
    while i < 3 {
        if ma >> i & 1 == 1 {
            let be = u[i].to_be_bytes();
            assert!(bytes[4 * k] == be[0] && bytes[4 * k + 1] == be[1] && bytes[4 * k + 2] == be[2] && bytes[4 * k + 3] == be[3]);
            k += 1;
        }
        i += 1;
    }
    kani::cover!(ma == 7, "three ids serialised");
}

/// validation of the smallvec shim against std Vec (differential): same sequence of
/// insert(idx, v)/push on both, same contents.
#[kani::proof]
#[kani::unwind(8)]
fn c12_shim_differential_vs_vec() {
    let mut sv: smallvec::SmallVec<[u32; 30]> = smallvec::SmallVec::new();
    let mut v: Vec<u32> = Vec::new();
    let mut n = 0;
    while n < 4 {
        let x: u32 = kani::any();
        let idx: usize = kani::any();
        kani::assume(idx <= n);
        sv.insert(idx, x);
        v.insert(idx, x);
        n += 1;
    }
    let y: u32 = kani::any();
    sv.push(y);
    v.push(y);
    assert!(sv.len() == v.len());
    let mut i = 0;
    while i < 5 {
        assert!(sv[i] == v[i]);
        i += 1;
    }
    kani::cover!(true, "five elements compared");
}

#[kani::proof]
#[kani::unwind(8)]
fn c12_twin_must_fail() {
    let u = universe::<3>();
    let ma: u8 = kani::any();
    let mb: u8 = kani::any();
    kani::assume(ma <= 7 && mb <= 7);
    let a = subset(&u, ma);
    let b = subset(&u, mb);
    let or = &a | &b;
    assert_is_subset(&or, &u, ma | mb);
    assert!(false, "twin: reachability witness");
}

/// re-export: `term::hpoterm` is a private module, `term::group` is public, so crate-wide users of the
/// directly constructed `HpoTerm` view go through here
pub(crate) use crate::term::hpoterm::verif_kani::Parts;
