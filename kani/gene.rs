//! C07/C08 — the gene record of the binary format (compiled inside `hpo::annotations::gene`).
//! Layout (documented): total_len u32 BE | gene id u32 BE | name_len u8 | name | n_terms u32 BE | n_terms x term id u32 BE
use super::*;

fn be(b: &[u8], at: usize) -> u32 {
    ((b[at] as u32) << 24) | ((b[at + 1] as u32) << 16) | ((b[at + 2] as u32) << 8) | b[at + 3] as u32
}
fn put(b: &mut [u8], at: usize, v: u32) {
    b[at] = (v >> 24) as u8;
    b[at + 1] = (v >> 16) as u8;
    b[at + 2] = (v >> 8) as u8;
    b[at + 3] = v as u8;
}

/// decode = inverse of the documented layout, shape (NAME bytes of name, TERMS terms) concrete,
/// every other byte symbolic. L = 13 + NAME + 4*TERMS.
fn decode_exact<const NAME: usize, const TERMS: usize, const L: usize>() {
    assert!(L == 13 + NAME + 4 * TERMS);
    let mut buf: [u8; L] = kani::any();
    put(&mut buf, 0, L as u32);
    buf[8] = NAME as u8;
    put(&mut buf, 9 + NAME, TERMS as u32);
    let r = Gene::try_from(&buf[..]);
    let name_ok = core::str::from_utf8(&buf[9..9 + NAME]).is_ok();
    match &r {
        Ok(g) => {
            assert!(name_ok, "a name that is not UTF-8 is rejected");
            assert!(g.id().as_u32() == be(&buf, 4), "gene id = bytes 4..8 big-endian");
            let nb = g.name().as_bytes();
            assert!(nb.len() == NAME);
            let mut i = 0;
            while i < NAME {
                assert!(nb[i] == buf[9 + i], "name bytes preserved");
                i += 1;
            }
            // term set = the set of listed ids
            let mut distinct = 0;
            let mut t = 0;
            while t < TERMS {
                let id = be(&buf, 13 + NAME + 4 * t);
                assert!(g.hpo_terms().contains(&HpoTermId::from_u32(id)), "every listed term is linked");
                let mut seen = false;
                let mut s = 0;
                while s < t {
                    if be(&buf, 13 + NAME + 4 * s) == id {
                        seen = true;
                    }
                    s += 1;
                }
                if !seen {
                    distinct += 1;
                }
                t += 1;
            }
            assert!(g.hpo_terms().len() == distinct, "no other term is linked");
            kani::cover!(true, "record accepted");
        }
        Err(_) => {
            assert!(!name_ok, "a well-formed record is accepted");
            kani::cover!(NAME > 0, "opt: invalid UTF-8 name rejected");
        }
    }
    core::mem::forget(r);
}

macro_rules! dec {
    ($name:ident, $n:expr, $t:expr) => {
        #[kani::proof]
        #[kani::unwind(8)]
        fn $name() {
            decode_exact::<$n, $t, { 13 + $n + 4 * $t }>();
        }
    };
}
dec!(c07_gene_decode_n0_t0, 0, 0);
dec!(c07_gene_decode_n1_t1, 1, 1);
dec!(c07_gene_decode_n3_t0, 3, 0);
dec!(c07_gene_decode_n2_t2, 2, 2);
dec!(c07_gene_decode_n3_t2, 3, 2);

/// A record whose *announced* lengths are (NAME, TERMS) handed over with fewer or more bytes than it
/// needs - and with ANY value in the total-length field - is never accepted.
/// L = true record length; every slice length LO..=L+4 except L is tried (LO = 0 for the smallest shape).
fn decode_wrong_length<const NAME: usize, const TERMS: usize, const L: usize, const LX: usize, const LO: usize>() {
    assert!(L == 13 + NAME + 4 * TERMS && LX == L + 4);
    let mut buf: [u8; LX] = kani::any();
    let total: u32 = kani::any();
    put(&mut buf, 0, total);
    buf[8] = NAME as u8;
    put(&mut buf, 9 + NAME, TERMS as u32);
    let mut len = LO;
    while len <= LX {
        if len != L {
            let r = Gene::try_from(&buf[..len]);
            let ok = r.is_ok();
            core::mem::forget(r);
            assert!(!ok, "truncated or extended record must be rejected");
        }
        len += 1;
    }
    // exact length but a total-length field that says otherwise
    if total != L as u32 {
        let r = Gene::try_from(&buf[..L]);
        let ok = r.is_ok();
        core::mem::forget(r);
        assert!(!ok, "length field disagreeing with the data must be rejected");
        kani::cover!(total == L as u32 + 1, "total one too large");
    }
    kani::cover!(total == L as u32, "consistent total, wrong slice lengths");
}

#[kani::proof]
#[kani::unwind(20)]
fn c08_gene_wrong_length_n0_t0() {
    decode_wrong_length::<0, 0, 13, 17, 0>();
}

/// One wrong slice length LEN != L for a record announcing (NAME, TERMS); total-length field any u32.
fn wrong_len_one<const NAME: usize, const TERMS: usize, const L: usize, const LEN: usize>() {
    assert!(L == 13 + NAME + 4 * TERMS && LEN != L);
    let mut buf: [u8; LEN] = kani::any();
    let total: u32 = kani::any();
    if LEN >= 4 {
        put(&mut buf, 0, total);
    }
    if LEN > 8 {
        buf[8] = NAME as u8;
    }
    if LEN >= 13 + NAME {
        put(&mut buf, 9 + NAME, TERMS as u32);
    }
    let r = Gene::try_from(&buf[..]);
    let ok = r.is_ok();
    core::mem::forget(r);
    assert!(!ok, "truncated or extended record must be rejected");
    kani::cover!(total == LEN as u32, "total-length field agrees with the (wrong) slice length");
    kani::cover!(total == L as u32, "total-length field as the full record announces");
}
macro_rules! wl {
    ($name:ident, $n:expr, $t:expr, $len:expr) => {
        #[kani::proof]
        #[kani::unwind(8)]
        fn $name() {
            wrong_len_one::<$n, $t, { 13 + $n + 4 * $t }, $len>();
        }
    };
}
wl!(c08_gene_n1_t1_cut1, 1, 1, 17);
wl!(c08_gene_n1_t1_cut2, 1, 1, 16);
wl!(c08_gene_n1_t1_cut4, 1, 1, 14);
wl!(c08_gene_n1_t1_ext1, 1, 1, 19);
wl!(c08_gene_n1_t1_ext4, 1, 1, 22);
wl!(c08_gene_n2_t2_cut1, 2, 2, 22);
wl!(c08_gene_n2_t2_cut4, 2, 2, 19);
wl!(c08_gene_n2_t2_ext1, 2, 2, 24);

/// The n_terms field may lie as well: with n_terms symbolic the record is accepted only when it
/// matches the data actually present.
#[kani::proof]
#[kani::unwind(8)]
fn c08_gene_nterms_field_symbolic() {
    const NAME: usize = 1;
    const L: usize = 13 + NAME + 8; // room for 2 terms
    let mut buf: [u8; L] = kani::any();
    put(&mut buf, 0, L as u32);
    buf[8] = NAME as u8;
    let n: u32 = kani::any();
    put(&mut buf, 9 + NAME, n);
    let r = Gene::try_from(&buf[..]);
    let ok = r.is_ok();
    core::mem::forget(r);
    if ok {
        assert!(n == 2, "accepted only with the true number of terms");
    }
    if n == 2 && buf[9] < 0x80 {
        assert!(ok, "the consistent record is accepted");
    }
    kani::cover!(n == 1, "one term announced, two present");
    kani::cover!(n == 0x4000_0000, "huge announced count");
}

/// encode = the documented layout. Name = NAME symbolic bytes (valid UTF-8 assumed), TERMS symbolic
/// distinct term ids.
fn encode<const NAME: usize, const TERMS: usize, const L: usize>() {
    assert!(L == 13 + NAME + 4 * TERMS);
    let nb: [u8; NAME] = kani::any();
    let Ok(name) = core::str::from_utf8(&nb) else {
        return;
    };
    let id: u32 = kani::any();
    let t: [u32; TERMS] = kani::any();
    let mut g = Gene::new(GeneId::from(id), name);
    let mut i = 0;
    while i < TERMS {
        if i > 0 {
            kani::assume(t[i - 1] != t[i]);
        }
        g.add_term(t[i]);
        i += 1;
    }
    let out = g.as_bytes();
    assert!(out.len() == L, "record length");
    assert!(be(&out, 0) == L as u32, "total length field");
    assert!(be(&out, 4) == id, "gene id field");
    assert!(out[8] == NAME as u8, "name length field");
    let mut i = 0;
    while i < NAME {
        assert!(out[9 + i] == nb[i], "name bytes");
        i += 1;
    }
    assert!(be(&out, 9 + NAME) == TERMS as u32, "number of terms");
    if TERMS == 1 {
        assert!(be(&out, 13 + NAME) == t[0]);
    }
    if TERMS == 2 {
        let (lo, hi) = if t[0] < t[1] { (t[0], t[1]) } else { (t[1], t[0]) };
        assert!(be(&out, 13 + NAME) == lo && be(&out, 17 + NAME) == hi, "term ids ascending, big-endian");
    }
    kani::cover!(NAME > 1 && nb[0] >= 0x80, "opt: multi-byte character in the name");
    kani::cover!(true, "encoded");
    core::mem::forget(out);
}

macro_rules! enc {
    ($name:ident, $n:expr, $t:expr) => {
        #[kani::proof]
        #[kani::unwind(8)]
        fn $name() {
            encode::<$n, $t, { 13 + $n + 4 * $t }>();
        }
    };
}
enc!(c07_gene_encode_n0_t0, 0, 0);
enc!(c07_gene_encode_n1_t1, 1, 1);
enc!(c07_gene_encode_n3_t0, 3, 0);
enc!(c07_gene_encode_n2_t2, 2, 2);
enc!(c07_gene_encode_n3_t2, 3, 2);
enc!(c07_gene_encode_n2_t0, 2, 0);

/// over-long names: the emitted name field (255 bytes) must still be valid UTF-8, otherwise the
/// loader rejects the serialiser's own output. Name = 253 x 'a' + one symbolic 1..3-byte character
/// + "zz" (so the cut at 255 bytes may fall inside the character).
#[kani::proof]
#[kani::unwind(262)]
fn c07_gene_name_cap_utf8() {
    let mut raw = [b'a'; 258];
    let c: [u8; 3] = kani::any();
    raw[253] = c[0];
    raw[254] = c[1];
    raw[255] = c[2];
    let Ok(name) = core::str::from_utf8(&raw) else {
        return;
    };
    let g = Gene::new(GeneId::from(7u32), name);
    let out = g.as_bytes();
    assert!(out[8] == 255, "name length capped at 255");
    assert!(out.len() == 13 + 255);
    let field_ok = core::str::from_utf8(&out[9..9 + 255]).is_ok();
    assert!(field_ok, "emitted name field is valid UTF-8");
    kani::cover!(c[0] >= 0xC0, "multi-byte character at the cut");
    core::mem::forget(out);
}

/// cheaper variant of the cap probe: the emitted name field is valid UTF-8 iff the cut position
/// (the announced name length) is a character boundary of the original name
#[kani::proof]
#[kani::unwind(262)]
fn c07_gene_name_cap_boundary() {
    let mut raw = [b'a'; 258];
    let c: [u8; 3] = kani::any();
    raw[253] = c[0];
    raw[254] = c[1];
    raw[255] = c[2];
    let Ok(name) = core::str::from_utf8(&raw) else {
        return;
    };
    let g = Gene::new(GeneId::from(7u32), name);
    let out = g.as_bytes();
    let cut = out[8] as usize;
    assert!(cut <= 255, "name length capped at 255");
    assert!(name.is_char_boundary(cut), "the name is cut at a character boundary (otherwise the loader rejects the record)");
    kani::cover!(c[0] >= 0xC0, "multi-byte character at the cut");
    core::mem::forget(out);
    core::mem::forget(g);
}

#[kani::proof]
#[kani::unwind(8)]
fn c07_gene_twin_must_fail() {
    decode_exact::<1, 1, 18>();
    assert!(false, "twin: reachability witness");
}
