//! C18 — the delta kernels of the ontology comparison (compiled inside `hpo::ontology::comparison`).
use super::*;
#[allow(unused_imports)]
use crate::annotations::AnnotationId as _;
use crate::term::group::verif_kani::{subset, universe};

fn list_is_subset<const U: usize>(v: &[HpoTermId], u: &[u32; U], mask: u8) -> bool {
    let mut k = 0;
    let mut i = 0;
    while i < U {
        if mask >> i & 1 == 1 {
            if k >= v.len() || v[k].as_u32() != u[i] {
                return false;
            }
            k += 1;
        }
        i += 1;
    }
    v.len() == k
}

/// AnnotationDelta::delta over two term sets = any subsets of an ascending symbolic universe and
/// two names chosen from {"a","b"}: Some iff something differs; added = R \ L, removed = L \ R as
/// exact ascending lists; n_terms; accessor conventions.
fn delta_h<const U: usize>() {
    let u = universe::<U>();
    let ml: u8 = kani::any();
    let mr: u8 = kani::any();
    kani::assume((ml as u16) < (1 << U) && (mr as u16) < (1 << U));
    let l = subset(&u, ml);
    let r = subset(&u, mr);
    let nl: bool = kani::any();
    let nr: bool = kani::any();
    let names = (
        String::from(if nl { "a" } else { "b" }),
        String::from(if nr { "a" } else { "b" }),
    );
    let d = AnnotationDelta::delta(&l, &r, names, String::new());
    let differs = ml != mr || nl != nr;
    match &d {
        None => assert!(!differs, "every difference is reported"),
        Some(d) => {
            assert!(differs, "identical records are not reported as changed");
            let added = mr & !ml;
            let removed = ml & !mr;
            assert!(list_is_subset(&d.added_terms, &u, added), "added terms = new \\ old");
            assert!(list_is_subset(&d.removed_terms, &u, removed), "removed terms = old \\ new");
            assert!(d.added_terms().is_some() == (added != 0));
            assert!(d.removed_terms().is_some() == (removed != 0));
            assert!(d.changed_name().is_some() == (nl != nr));
            assert!(d.n_terms() == (ml.count_ones() as usize, mr.count_ones() as usize));
            kani::cover!(added != 0 && removed != 0, "terms added and removed at once");
            kani::cover!(ml == mr && nl != nr, "rename only");
        }
    }
    kani::cover!(!differs && ml != 0, "identical non-empty records");
    core::mem::forget(d);
}

#[kani::proof]
#[kani::unwind(5)]
fn c18_annotation_delta_u2() {
    delta_h::<2>();
}
#[kani::proof]
#[kani::unwind(6)]
fn c18_annotation_delta_u3() {
    delta_h::<3>();
}

/// swapping the arguments swaps added with removed
#[kani::proof]
#[kani::unwind(5)]
fn c18_annotation_delta_swap() {
    let u = universe::<2>();
    let ml: u8 = kani::any();
    let mr: u8 = kani::any();
    kani::assume(ml < 4 && mr < 4 && ml != mr);
    let l = subset(&u, ml);
    let r = subset(&u, mr);
    let d1 = AnnotationDelta::delta(&l, &r, (String::new(), String::new()), String::new()).unwrap();
    let d2 = AnnotationDelta::delta(&r, &l, (String::new(), String::new()), String::new()).unwrap();
    assert!(d1.added_terms.len() == d2.removed_terms.len() && d1.removed_terms.len() == d2.added_terms.len());
    let mut i = 0;
    while i < d1.added_terms.len() {
        assert!(d1.added_terms[i] == d2.removed_terms[i]);
        i += 1;
    }
    let mut i = 0;
    while i < d1.removed_terms.len() {
        assert!(d1.removed_terms[i] == d2.added_terms[i]);
        i += 1;
    }
    assert!(d1.n_terms().0 == d2.n_terms().1);
    kani::cover!(d1.added_terms.len() == 1 && d1.removed_terms.len() == 1, "one added, one removed");
    core::mem::forget(d1);
    core::mem::forget(d2);
}

#[kani::proof]
#[kani::unwind(5)]
fn c18_twin_must_fail() {
    delta_h::<2>();
    assert!(false, "twin: reachability witness");
}
