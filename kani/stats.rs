//! Direct-state constructor for `SampleSet` (compiled inside `hpo::stats`).
use super::*;

/// a sample set of `size` terms in which exactly one annotation (`key`) occurs, `count` times
pub(crate) fn sample_set_one<T>(size: u64, key: u32, count: u64) -> SampleSet<T> {
    let mut counts: HashMap<u32, u64> = HashMap::new();
    counts.insert(key, count);
    SampleSet {
        size,
        counts,
        phantom: PhantomData,
    }
}
