//! C20 — term-id text and byte conversions (harnesses compiled inside `hpo::term::hpotermid`).
use super::*;
use crate::annotations::{GeneId, OmimDiseaseId, OrphaDiseaseId};

/// Reference reading of "the text after the three-byte prefix is an unsigned 32-bit decimal number".
/// Returns Some(value) iff `tail` is 1+ ASCII digits whose value fits u32.
fn ref_parse_u32(tail: &[u8]) -> Option<u32> {
    if tail.is_empty() {
        return None;
    }
    let mut v: u64 = 0;
    let mut i = 0;
    while i < tail.len() {
        let b = tail[i];
        if !(b'0'..=b'9').contains(&b) {
            return None;
        }
        v = v * 10 + (b - b'0') as u64;
        if v > u32::MAX as u64 {
            return None;
        }
        i += 1;
    }
    Some(v as u32)
}

/// All UTF-8 strings of exactly N bytes: never panics, Ok iff tail is a u32 decimal, value exact.
fn parse_total<const N: usize>() {
    let bytes: [u8; N] = kani::any();
    let Ok(s) = core::str::from_utf8(&bytes) else {
        return;
    };
    // must not panic for any valid &str
    let res = HpoTermId::try_from(s);
    kani::cover!(true, "try_from returned for a valid &str");
    if N < 4 {
        kani::cover!(true, "opt: short valid input reached");
        assert!(res.is_err(), "short input is an error");
        return;
    }
    // sign-prefixed tails: std accepts '+', the property text is silent -> only totality is claimed
    if bytes[3] == b'+' {
        kani::cover!(true, "opt: sign-prefixed input reached");
        return;
    }
    match ref_parse_u32(&bytes[3..]) {
        Some(v) => {
            kani::cover!(true, "opt: numeric tail reached");
            match res {
                Ok(id) => assert!(id.as_u32() == v, "parsed value equals decimal value of tail"),
                Err(_) => panic!("numeric tail must parse"),
            }
        }
        None => {
            kani::cover!(bytes[3] >= 0x80, "opt: non-ASCII byte at offset 3 reached");
            assert!(res.is_err(), "non-numeric tail must be an error");
        }
    }
}

#[kani::proof]
#[kani::unwind(10)]
fn c20_parse_total_len0() {
    parse_total::<0>();
}
#[kani::proof]
#[kani::unwind(10)]
fn c20_parse_total_len1() {
    parse_total::<1>();
}
#[kani::proof]
#[kani::unwind(10)]
fn c20_parse_total_len2() {
    parse_total::<2>();
}
#[kani::proof]
#[kani::unwind(10)]
fn c20_parse_total_len3() {
    parse_total::<3>();
}
#[kani::proof]
#[kani::unwind(10)]
fn c20_parse_total_len4() {
    parse_total::<4>();
}
#[kani::proof]
#[kani::unwind(10)]
fn c20_parse_total_len5() {
    parse_total::<5>();
}
#[kani::proof]
#[kani::unwind(10)]
fn c20_parse_total_len6() {
    parse_total::<6>();
}
#[kani::proof]
#[kani::unwind(10)]
fn c20_parse_total_len7() {
    parse_total::<7>();
}
#[kani::proof]
#[kani::unwind(10)]
fn c20_parse_total_len8() {
    parse_total::<8>();
}

/// Fixed "HP:" prefix + T symbolic tail bytes (any bytes that keep the string valid UTF-8).
/// T = 10/11 covers the overflow border 4294967295 / 4294967296 and leading zeros.
fn parse_prefixed<const T: usize, const L: usize>() {
    let tail: [u8; T] = kani::any();
    let mut buf = [0u8; L];
    buf[0] = b'H';
    buf[1] = b'P';
    buf[2] = b':';
    let mut i = 0;
    while i < T {
        buf[3 + i] = tail[i];
        i += 1;
    }
    let Ok(s) = core::str::from_utf8(&buf) else {
        return;
    };
    let res = HpoTermId::try_from(s);
    if tail[0] == b'+' {
        return;
    }
    match ref_parse_u32(&tail) {
        Some(v) => {
            kani::cover!(true, "numeric tail reached");
            kani::cover!(v == u32::MAX, "opt: u32::MAX reached");
            match res {
                Ok(id) => assert!(id.as_u32() == v, "parsed value equals decimal value of tail"),
                Err(_) => panic!("numeric tail must parse"),
            }
        }
        None => {
            assert!(res.is_err(), "non-numeric or overflowing tail must be an error");
        }
    }
}

#[kani::proof]
#[kani::unwind(14)]
fn c20_parse_prefixed_tail7() {
    parse_prefixed::<7, 10>();
}
#[kani::proof]
#[kani::unwind(14)]
fn c20_parse_prefixed_tail10() {
    parse_prefixed::<10, 13>();
}
#[kani::proof]
#[kani::unwind(15)]
fn c20_parse_prefixed_tail11() {
    parse_prefixed::<11, 14>();
}

/// 7 ASCII digits after "HP:" parse to the id with that decimal value (inverse of the rendering
/// "HP:" + zero-padded 7 digits on the parser side), for all 10^7 digit strings.
#[kani::proof]
#[kani::unwind(12)]
fn c20_parse_seven_digits_is_value() {
    let d: [u8; 7] = kani::any();
    let mut buf = *b"HP:0000000";
    let mut v: u32 = 0;
    let mut i = 0;
    while i < 7 {
        kani::assume(d[i] < 10);
        buf[3 + i] = b'0' + d[i];
        v = v * 10 + d[i] as u32;
        i += 1;
    }
    let s = core::str::from_utf8(&buf).unwrap();
    let id = HpoTermId::try_from(s).unwrap();
    kani::cover!(v == 9_999_999, "largest 7-digit id reached");
    assert!(id.as_u32() == v);
    assert!(id == HpoTermId::from_u32(v));
}

/// byte / integer conversions, all u32
#[kani::proof]
fn c20_bytes_roundtrip_all_u32() {
    let n: u32 = kani::any();
    let id = HpoTermId::from_u32(n);
    assert!(id.as_u32() == n);
    assert!(id.to_usize() == n as usize);
    assert!(HpoTermId::from(n) == id);
    assert!(HpoTermId::from(n as u64) == id);
    assert!(HpoTermId::from(n as usize) == id);
    let be = id.to_be_bytes();
    assert!(be == n.to_be_bytes());
    assert!(HpoTermId::from(be) == id);
    let raw: [u8; 4] = kani::any();
    let id2 = HpoTermId::from(raw);
    assert!(id2.to_be_bytes() == raw);
    assert!(id2.as_u32() == ((raw[0] as u32) << 24 | (raw[1] as u32) << 16 | (raw[2] as u32) << 8 | raw[3] as u32));
    let m: u16 = kani::any();
    assert!(HpoTermId::from(m).as_u32() == m as u32);
    // ordering and equality are those of the number
    let k: u32 = kani::any();
    assert!((HpoTermId::from_u32(k) < id) == (k < n));
    assert!((HpoTermId::from_u32(k) == id) == (k == n));
    kani::cover!(n > 10_000_000, "id above the HPO id space reached");
}

#[kani::proof]
fn c20_annotation_ids_bytes_all_u32() {
    let n: u32 = kani::any();
    assert!(GeneId::from(n).as_u32() == n);
    assert!(GeneId::from(n).to_be_bytes() == n.to_be_bytes());
    assert!(OmimDiseaseId::from(n).as_u32() == n);
    assert!(OmimDiseaseId::from(n).to_be_bytes() == n.to_be_bytes());
    assert!(OrphaDiseaseId::from(n).as_u32() == n);
    assert!(OrphaDiseaseId::from(n).to_be_bytes() == n.to_be_bytes());
    assert!(crate::u32_from_bytes(&n.to_be_bytes()) == n);
    kani::cover!(n == u32::MAX, "u32::MAX reached");
}

/// vacuity twin: must FAIL
#[kani::proof]
#[kani::unwind(10)]
fn c20_twin_must_fail() {
    let bytes: [u8; 5] = kani::any();
    if let Ok(s) = core::str::from_utf8(&bytes) {
        let _ = HpoTermId::try_from(s);
    }
    assert!(false, "twin: reachability witness");
}

/// Rendering, on concrete border ids only (core::fmt on a symbolic integer is out of CBMC's reach,
/// DESIGN §5 C20): "HP:" + 7 zero-padded digits (more digits above 9 999 999), and parsing the
/// rendering returns the id. These are concrete sanity runs through the real Display code.
fn display_roundtrip(n: u32, expected: &str) {
    let id = HpoTermId::from_u32(n);
    let s = id.to_string();
    let sb = s.as_bytes();
    let eb = expected.as_bytes();
    assert!(sb.len() == eb.len(), "rendered length");
    let mut i = 0;
    while i < eb.len() {
        assert!(sb[i] == eb[i], "rendered text");
        i += 1;
    }
    let back = HpoTermId::try_from(s.as_str());
    assert!(matches!(back, Ok(x) if x == id), "parsing the rendering returns the id");
    core::mem::forget(back);
    core::mem::forget(s);
}

#[kani::proof]
#[kani::unwind(16)]
fn c20_display_border_ids_low() {
    display_roundtrip(0, "HP:0000000");
    display_roundtrip(1, "HP:0000001");
    display_roundtrip(118, "HP:0000118");
    display_roundtrip(9_999_999, "HP:9999999");
    kani::cover!(true, "four concrete ids rendered");
}

#[kani::proof]
#[kani::unwind(16)]
fn c20_display_border_ids_high() {
    display_roundtrip(10_000_000, "HP:10000000");
    display_roundtrip(10_000_118, "HP:10000118");
    display_roundtrip(u32::MAX, "HP:4294967295");
    kani::cover!(true, "three concrete ids above the HPO id space rendered");
}
