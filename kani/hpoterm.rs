//! Term-level harnesses driven from directly constructed `HpoTerm` views (no arena on the path):
//! C12 (ancestor set algebra), C01 (accessors answer from the stored closure), C19 (is_modifier,
//! categories). Compiled inside `hpo::term::hpoterm`.
use super::*;
#[allow(unused_imports)]
use crate::annotations::AnnotationId as _;
use crate::ontology::verif_kani::{empty_ontology_cap, stub_random_state};
use crate::term::group::verif_kani::{is_sorted_set, subset, universe};

/// owned parts of a term; `view()` borrows them as the public `HpoTerm`
pub(crate) struct Parts {
    pub id: HpoTermId,
    pub parents: HpoGroup,
    pub all_parents: HpoGroup,
    pub children: HpoGroup,
    pub genes: Genes,
    pub omim: OmimDiseases,
    pub orpha: OrphaDiseases,
    pub ic: InformationContent,
    pub obsolete: bool,
    pub replaced_by: Option<HpoTermId>,
}

impl Parts {
    pub(crate) fn new(id: u32, parents: HpoGroup, all_parents: HpoGroup, children: HpoGroup) -> Self {
        Parts {
            id: HpoTermId::from_u32(id),
            parents,
            all_parents,
            children,
            genes: Genes::default(),
            omim: OmimDiseases::default(),
            orpha: OrphaDiseases::default(),
            ic: InformationContent::default(),
            obsolete: false,
            replaced_by: None,
        }
    }
    pub(crate) fn view<'a>(&'a self, ontology: &'a Ontology) -> HpoTerm<'a> {
        HpoTerm {
            id: &self.id,
            name: "t",
            parents: &self.parents,
            all_parents: &self.all_parents,
            children: &self.children,
            genes: &self.genes,
            omim_diseases: &self.omim,
            orpha_diseases: &self.orpha,
            information_content: &self.ic,
            obsolete: self.obsolete,
            replaced_by: self.replaced_by,
            ontology,
        }
    }
}

fn none() -> HpoGroup {
    HpoGroup::default()
}

fn in_mask<const U: usize>(u: &[u32; U], mask: u8, x: u32) -> bool {
    let mut r = false;
    let mut i = 0;
    while i < U {
        if mask >> i & 1 == 1 && u[i] == x {
            r = true;
        }
        i += 1;
    }
    r
}

// ---------------------------------------------------------------------------------------------
// C12: common / union ancestor queries are the set algebra of the ancestor sets
// ---------------------------------------------------------------------------------------------

/// Two terms with arbitrary own ids (u32) and ancestor sets = any subsets of a strictly ascending
/// symbolic universe of U ids. The oracle is extensional: for an arbitrary probe id p, membership
/// of p in the result equals the documented set expression, and the result is strictly ascending
/// (so it is *the* representation of that set).
fn ancestor_algebra<const U: usize>(part: u8) {
    let o = empty_ontology_cap(1, 1);
    let u = universe::<U>();
    let ma: u8 = kani::any();
    let mb: u8 = kani::any();
    kani::assume((ma as u16) < (1 << U) && (mb as u16) < (1 << U));
    let ida: u32 = kani::any();
    let idb: u32 = kani::any();
    // a term is never its own ancestor (C01); ids of the two terms may or may not be ancestors of each other
    kani::assume(!in_mask(&u, ma, ida) && !in_mask(&u, mb, idb));
    let pa = Parts::new(ida, none(), subset(&u, ma), none());
    let pb = Parts::new(idb, none(), subset(&u, mb), none());
    let a = pa.view(&o);
    let b = pb.view(&o);
    let p: u32 = kani::any();
    let pid = HpoTermId::from_u32(p);
    let in_a = in_mask(&u, ma, p);
    let in_b = in_mask(&u, mb, p);
    kani::cover!(ma != 0 && mb != 0 && ma != mb, "two different non-empty ancestor sets");

    if part == 0 {
        let common = a.common_ancestor_ids(&b);
        assert!(is_sorted_set(&common));
        assert!(common.contains(&pid) == (in_a && in_b), "common ancestors = A ∩ B");

        let all_common = a.all_common_ancestor_ids(&b);
        assert!(is_sorted_set(&all_common));
        assert!(all_common.contains(&pid) == ((in_a || p == ida) && (in_b || p == idb)), "all_common = (A + a) ∩ (B + b)");
        assert!(a.common_ancestors(&b).len() == common.len());
        assert!(a.all_common_ancestors(&b).len() == all_common.len());
        assert!(a.common_ancestors(&b).is_empty() == common.is_empty());
        kani::cover!(in_a && in_b, "opt: probe is a common ancestor");
        kani::cover!(p == ida && in_b, "opt: a is an ancestor of b");
        kani::cover!(ida == idb, "opt: same term id on both sides");
        core::mem::forget(o);
        return;
    }

    let union = a.union_ancestor_ids(&b);
    assert!(is_sorted_set(&union));
    assert!(union.contains(&pid) == (in_a || in_b), "union ancestors = A ∪ B");

    // all_union_ancestor_ids: prose says "including self and other", the doc-tests assert the
    // opposite -> accept exactly A ∪ B or A ∪ B ∪ {a,b}, nothing else (DESIGN §7)
    let all_union = a.all_union_ancestor_ids(&b);
    assert!(is_sorted_set(&all_union));
    let got = all_union.contains(&pid);
    if in_a || in_b {
        assert!(got, "all_union contains A ∪ B");
    } else if p != ida && p != idb {
        assert!(!got, "all_union contains nothing outside A ∪ B ∪ (a,b)");
    }
    let self_incl = all_union.contains(&HpoTermId::from_u32(ida)) && all_union.contains(&HpoTermId::from_u32(idb));
    let self_excl = all_union.contains(&HpoTermId::from_u32(ida)) == (in_mask(&u, mb, ida))
        && all_union.contains(&HpoTermId::from_u32(idb)) == (in_mask(&u, ma, idb));
    assert!(self_incl || self_excl, "self/other either both included or only as ancestors");

    // the Combined-returning variants carry the same number of ids
    assert!(a.union_ancestors(&b).len() == union.len());
    assert!(a.all_union_ancestors(&b).len() == all_union.len());

    kani::cover!(in_a && !in_b, "opt: probe is an ancestor of one term only");
    kani::cover!(ma != mb && ma & mb != 0, "opt: overlapping different ancestor sets");
    core::mem::forget(o);
}

#[kani::proof]
#[kani::stub(std::hash::RandomState::new, stub_random_state)]
#[kani::unwind(8)]
fn c12_ancestor_common_u2() {
    ancestor_algebra::<2>(0);
}
#[kani::proof]
#[kani::stub(std::hash::RandomState::new, stub_random_state)]
#[kani::unwind(8)]
fn c12_ancestor_union_u2() {
    ancestor_algebra::<2>(1);
}
#[kani::proof]
#[kani::stub(std::hash::RandomState::new, stub_random_state)]
#[kani::unwind(8)]
fn c12_ancestor_common_u3() {
    ancestor_algebra::<3>(0);
}
#[kani::proof]
#[kani::stub(std::hash::RandomState::new, stub_random_state)]
#[kani::unwind(8)]
fn c12_ancestor_union_u3() {
    ancestor_algebra::<3>(1);
}
#[kani::proof]
#[kani::stub(std::hash::RandomState::new, stub_random_state)]
#[kani::unwind(8)]
fn c12_ancestor_common_u4() {
    ancestor_algebra::<4>(0);
}
#[kani::proof]
#[kani::stub(std::hash::RandomState::new, stub_random_state)]
#[kani::unwind(8)]
fn c12_ancestor_union_u4() {
    ancestor_algebra::<4>(1);
}

// ---------------------------------------------------------------------------------------------
// C01: the accessors answer exactly from the stored groups / closure
// ---------------------------------------------------------------------------------------------
#[kani::proof]
#[kani::stub(std::hash::RandomState::new, stub_random_state)]
#[kani::unwind(8)]
fn c01_accessors_answer_from_closure() {
    let o = empty_ontology_cap(1, 1);
    let u = universe::<4>();
    let mp: u8 = kani::any(); // parents
    let ma: u8 = kani::any(); // all ancestors ⊇ parents
    let mc: u8 = kani::any(); // children
    kani::assume(mp < 16 && ma < 16 && mc < 16 && mp & !ma == 0);
    let idt: u32 = kani::any();
    let ido: u32 = kani::any();
    kani::assume(!in_mask(&u, ma, idt));
    let pt = Parts::new(idt, subset(&u, mp), subset(&u, ma), subset(&u, mc));
    let po = Parts::new(ido, none(), none(), none());
    let t = pt.view(&o);
    let other = po.view(&o);
    assert!(t.id().as_u32() == idt);
    assert!(t.child_of(&other) == in_mask(&u, ma, ido), "child_of = membership in the ancestor closure");
    assert!(other.parent_of(&t) == in_mask(&u, ma, ido), "parent_of is the converse");
    assert!(!t.child_of(&t), "a term is never its own ancestor");
    let p: u32 = kani::any();
    let pid = HpoTermId::from_u32(p);
    assert!(t.parent_ids().contains(&pid) == in_mask(&u, mp, p));
    assert!(t.all_parent_ids().contains(&pid) == in_mask(&u, ma, p));
    assert!(t.children_ids().contains(&pid) == in_mask(&u, mc, p));
    assert!(t.parent_ids().len() == mp.count_ones() as usize);
    assert!(t.all_parent_ids().len() == ma.count_ones() as usize);
    assert!(t.children_ids().len() == mc.count_ones() as usize);
    kani::cover!(in_mask(&u, ma, ido) && !in_mask(&u, mp, ido), "other is a non-direct ancestor");
    kani::cover!(ido == idt, "other is the term itself");
    core::mem::forget(o);
}

// ---------------------------------------------------------------------------------------------
// C19: is_modifier / categories
// ---------------------------------------------------------------------------------------------

/// is_modifier <=> some modifier root ∈ ancestors ∪ {self}; roots and ancestors are any subsets
/// of a symbolic universe, the term's own id is arbitrary.
fn is_modifier_h<const U: usize>() {
    let mut o = empty_ontology_cap(1, 1);
    let u = universe::<U>();
    let ma: u8 = kani::any();
    let mm: u8 = kani::any();
    kani::assume((ma as u16) < (1 << U) && (mm as u16) < (1 << U));
    let idt: u32 = kani::any();
    kani::assume(!in_mask(&u, ma, idt));
    *o.modifier_mut() = subset(&u, mm);
    let pt = Parts::new(idt, none(), subset(&u, ma), none());
    let t = pt.view(&o);
    let expected = ma & mm != 0 || in_mask(&u, mm, idt);
    assert!(t.is_modifier() == expected, "modifier iff it is or descends from a modifier root");
    kani::cover!(ma & mm != 0, "modifier through an ancestor");
    kani::cover!(ma & mm == 0 && in_mask(&u, mm, idt), "modifier root itself");
    kani::cover!(!expected && mm != 0 && ma != 0, "non-modifier with roots and ancestors present");
    core::mem::forget(o);
}

#[kani::proof]
#[kani::stub(std::hash::RandomState::new, stub_random_state)]
#[kani::unwind(8)]
fn c19_is_modifier_u3() {
    is_modifier_h::<3>();
}
#[kani::proof]
#[kani::stub(std::hash::RandomState::new, stub_random_state)]
#[kani::unwind(8)]
fn c19_is_modifier_u4() {
    is_modifier_h::<4>();
}

/// categories() = the category ids the term equals or descends from, exact ascending list
fn term_categories_h<const U: usize>() {
    let mut o = empty_ontology_cap(1, 1);
    let u = universe::<U>();
    let ma: u8 = kani::any();
    let mc: u8 = kani::any();
    kani::assume((ma as u16) < (1 << U) && (mc as u16) < (1 << U));
    let idt: u32 = kani::any();
    kani::assume(!in_mask(&u, ma, idt));
    *o.categories_mut() = subset(&u, mc);
    let pt = Parts::new(idt, none(), subset(&u, ma), none());
    let t = pt.view(&o);
    let got = t.categories();
    let mut k = 0;
    let mut i = 0;
    while i < U {
        let is_cat = mc >> i & 1 == 1;
        let anc_or_self = ma >> i & 1 == 1 || u[i] == idt;
        if is_cat && anc_or_self {
            assert!(k < got.len() && got[k].as_u32() == u[i], "categories exact and ascending");
            k += 1;
        }
        i += 1;
    }
    assert!(got.len() == k, "no other category reported");
    kani::cover!(k >= 2, "two or more categories");
    kani::cover!(in_mask(&u, mc, idt), "the term is itself a category");
    kani::cover!(k == 0 && mc != 0 && ma != 0, "no category although categories and ancestors exist");
    core::mem::forget(got);
    core::mem::forget(o);
}

#[kani::proof]
#[kani::stub(std::hash::RandomState::new, stub_random_state)]
#[kani::unwind(4)]
fn c19_term_categories_u2() {
    term_categories_h::<2>();
}
#[kani::proof]
#[kani::stub(std::hash::RandomState::new, stub_random_state)]
#[kani::unwind(5)]
fn c19_term_categories_u3() {
    term_categories_h::<3>();
}
