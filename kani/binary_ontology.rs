//! C08 — file header: magic and version byte (compiled inside `hpo::parser::binary::ontology`).
use super::*;
use crate::parser::binary::BinaryVersion;

/// For every byte string of N bytes (N = 0..=8 as separate instances):
///  < 5 bytes -> ParseBinaryError; "HPO"+3 -> V3 (view starts at byte 4); "HPO"+2 -> V2;
///  "HPO"+anything else -> NotImplemented; no magic -> V1 over the whole input.
fn header<const N: usize>() {
    let b: [u8; N] = kani::any();
    let r = version(&b);
    kani::cover!(true, "version() returned");
    if N < 5 {
        assert!(matches!(r, Err(HpoError::ParseBinaryError)), "fewer than 5 bytes is not a file");
        kani::cover!(true, "opt: short input rejected");
    } else {
        let magic = b[0] == 0x48 && b[1] == 0x50 && b[2] == 0x4f;
        match r {
            Ok(bytes) => {
                if magic {
                    assert!(b[3] == 2 || b[3] == 3, "only versions 2 and 3 carry the magic");
                    assert!(bytes.version() == if b[3] == 3 { BinaryVersion::V3 } else { BinaryVersion::V2 });
                    assert!(bytes.len() == N - 4, "payload starts behind the 4-byte header");
                    assert!(bytes[0] == b[4]);
                    kani::cover!(b[3] == 3, "opt: v3 header");
                    kani::cover!(b[3] == 2, "opt: v2 header");
                } else {
                    assert!(bytes.version() == BinaryVersion::V1, "no magic: version 1");
                    assert!(bytes.len() == N && bytes[0] == b[0], "v1 payload is the whole input");
                    kani::cover!(b[0] == 0x48 && b[1] == 0x50, "opt: near-miss magic is v1");
                }
            }
            Err(e) => {
                assert!(magic && b[3] != 2 && b[3] != 3, "only an unsupported version byte is rejected");
                assert!(matches!(e, HpoError::NotImplemented));
                kani::cover!(b[3] == 1, "opt: announced version 1 with magic");
                kani::cover!(b[3] == 4, "opt: announced version 4");
            }
        }
    }
}

#[kani::proof]
#[kani::unwind(6)]
fn c08_header_len0() {
    header::<0>();
}
#[kani::proof]
#[kani::unwind(6)]
fn c08_header_len4() {
    header::<4>();
}
#[kani::proof]
#[kani::unwind(6)]
fn c08_header_len5() {
    header::<5>();
}
#[kani::proof]
#[kani::unwind(6)]
fn c08_header_len8() {
    header::<8>();
}

#[kani::proof]
#[kani::unwind(6)]
fn c08_header_twin_must_fail() {
    header::<5>();
    assert!(false, "twin: reachability witness");
}
