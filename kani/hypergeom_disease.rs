//! C06 — assembly of the enrichment record (compiled inside `hpo::stats::hypergeom::disease`).
use super::*;
use crate::ontology::verif_kani::stub_random_state;
use crate::stats::hypergeom::statrs::ln_binomial;
use crate::stats::verif_kani::sample_set_one;

fn model_ln_binomial(n: u64, k: u64) -> f64 {
    (n * 16 + k) as f64
}
fn model_exp(x: f64) -> f64 {
    x
}

/// background of N terms of which K carry disease 7, sample of n terms of which k carry it
/// (k >= 1, k <= n <= N <= 6, k <= K <= N): exactly one record, for that disease, count k,
/// p-value = sf(k-1) of Hypergeometric(N, K, n) (i.e. P[X >= k]), fold enrichment (k/n)/(K/N).
/// libm is modelled (deterministic ln_binomial / exp), so the p-value is compared with the same
/// distribution object evaluated in the harness: this decides the WIRING of (N, K, n, k-1).
#[kani::proof]
#[kani::stub(std::hash::RandomState::new, stub_random_state)]
#[kani::stub(ln_binomial, model_ln_binomial)]
#[kani::stub(f64::exp, model_exp)]
#[kani::unwind(9)]
fn c06_enrichment_record_wiring() {
    let big_n: u64 = kani::any();
    let big_k: u64 = kani::any();
    let n: u64 = kani::any();
    let k: u64 = kani::any();
    kani::assume(big_n <= 6 && n <= big_n && big_k <= big_n && k >= 1 && k <= n && k <= big_k);
    let background = sample_set_one::<OmimDiseaseId>(big_n, 7, big_k);
    let sample = sample_set_one::<OmimDiseaseId>(n, 7, k);
    let res = inner_disease_enrichment(&background, &sample);
    assert!(res.len() == 1, "one record per annotation linked to a sample term");
    let r = &res[0];
    assert!(r.id().as_u32() == 7);
    assert!(r.count() == k, "count = number of linked sample terms");
    let expected_p = Hypergeometric::new(big_n, big_k, n).unwrap().sf(k - 1);
    assert!(r.pvalue().to_bits() == expected_p.to_bits(), "p-value = P[X >= k] = sf(k-1) of Hypergeometric(N, K, n)");
    let expected_e = (k as u32 as f64 / n as u32 as f64) / (big_k as u32 as f64 / big_n as u32 as f64);
    assert!(r.enrichment().to_bits() == expected_e.to_bits(), "fold enrichment = (k/n)/(K/N)");
    kani::cover!(k < n && big_k < big_n && k < big_k, "interior parameters");
    kani::cover!(k == big_k && k == n, "all linked terms drawn");
    core::mem::forget(res);
    core::mem::forget(background);
    core::mem::forget(sample);
}
