//! C04 — built-in term similarities on a fixed 4-term ontology with symbolic information contents
//! (compiled inside `hpo::similarity::defaults`).
//!
//! Ontology (direct state): 1 <- 2 <- 3 and 2 <- 4  (root r=1, inner m=2, siblings x=3, y=4).
//! The information contents of the four terms are symbolic on the grid k/8 (0 <= ic <= 16, and not
//! decreasing from ancestor to descendant: the C03 invariant, an explicit assumption).
//! The reference evaluates the formula with the same IEEE operations in the same order over the
//! same (ascending) ancestor lists, so results must be bit-equal.
use super::*;
use crate::ontology::verif_kani::{add_term, empty_ontology_cap, stub_random_state, term_mut};
use crate::term::group::verif_kani::subset;
use crate::term::internal::verif_kani::term_lean;
use crate::term::HpoGroup;
use crate::Ontology;

const IDS: [u32; 4] = [1, 2, 3, 4];
/// ancestor masks over IDS for terms 1..=4
const ANC: [u8; 4] = [0b0000, 0b0001, 0b0011, 0b0011];

fn model_exp(x: f32) -> f32 {
    // deterministic, monotone stand-in for exp (CBMC's exp is non-deterministic)
    x + 1.0
}

fn set_ic(o: &mut Ontology, id: u32, kind: InformationContentKind, v: f32) {
    let ic = term_mut(o, id).information_content_mut();
    match kind {
        InformationContentKind::Gene => *ic.gene_mut() = v,
        InformationContentKind::Omim => *ic.omim_disease_mut() = v,
        InformationContentKind::Orpha => *ic.orpha_disease_mut() = v,
    }
}

/// builds the ontology and returns the four symbolic ICs (index 0 = term 1)
fn build(kind: InformationContentKind) -> (Ontology, [f32; 4]) {
    let mut o = empty_ontology_cap(8, 5);
    let mut i = 0;
    while i < 4 {
        add_term(&mut o, term_lean(IDS[i], HpoGroup::default(), subset(&IDS, ANC[i]), HpoGroup::default()));
        i += 1;
    }
    // information contents on the exact grid k/8, k <= 128 (values 0 ..= 16): over all finite f32 the
    // bit-equality with the reference is a genuine floating-point equivalence query that does not
    // finish (1500 s); on the grid the solver decides all 129^4 combinations
    let k: [u8; 4] = kani::any();
    let mut ic = [0f32; 4];
    let mut i = 0;
    while i < 4 {
        kani::assume(k[i] <= 128);
        ic[i] = k[i] as f32 / 8.0;
        i += 1;
    }
    // C03 invariant: an ancestor is never more informative than its descendant
    kani::assume(k[0] <= k[1] && k[1] <= k[2] && k[1] <= k[3]);
    let mut i = 0;
    while i < 4 {
        set_ic(&mut o, IDS[i], kind, ic[i]);
        i += 1;
    }
    (o, ic)
}

fn ref_resnik(ic: &[f32; 4], a: usize, b: usize) -> f32 {
    let common = (ANC[a] | 1 << a) & (ANC[b] | 1 << b);
    let mut max = 0.0f32;
    let mut i = 0;
    while i < 4 {
        if common >> i & 1 == 1 {
            let t = ic[i];
            max = if t > max { t } else { max };
        }
        i += 1;
    }
    max
}
fn ref_lin(ic: &[f32; 4], a: usize, b: usize) -> f32 {
    let comb = ic[a] + ic[b];
    if comb == 0.0 {
        return 0.0;
    }
    2.0 * ref_resnik(ic, a, b) / comb
}

#[derive(Clone, Copy, PartialEq)]
enum Alg {
    Resnik,
    Lin,
    Jc,
    Relevance,
    InfoCoeff,
    GraphIc,
}

/// A, B: indices (0..4) of the two terms
fn sim_case<const A: usize, const B: usize>(alg: Alg, kind: InformationContentKind) {
    let (o, ic) = build(kind);
    let ta = o.hpo(IDS[A]).unwrap();
    let tb = o.hpo(IDS[B]).unwrap();
    let (got, got_rev) = match alg {
        Alg::Resnik => (Resnik::new(kind).calculate(&ta, &tb), Resnik::new(kind).calculate(&tb, &ta)),
        Alg::Lin => (Lin::new(kind).calculate(&ta, &tb), Lin::new(kind).calculate(&tb, &ta)),
        Alg::Jc => (Jc::new(kind).calculate(&ta, &tb), Jc::new(kind).calculate(&tb, &ta)),
        Alg::Relevance => (Relevance::new(kind).calculate(&ta, &tb), Relevance::new(kind).calculate(&tb, &ta)),
        Alg::InfoCoeff => (
            InformationCoefficient::new(kind).calculate(&ta, &tb),
            InformationCoefficient::new(kind).calculate(&tb, &ta),
        ),
        Alg::GraphIc => (GraphIc::new(kind).calculate(&ta, &tb), GraphIc::new(kind).calculate(&tb, &ta)),
    };
    assert!(!got.is_nan() && got.is_finite() && got >= 0.0, "score is a finite number >= 0");
    assert!(got.to_bits() == got_rev.to_bits(), "score does not depend on the argument order");
    let resnik = ref_resnik(&ic, A, B);
    match alg {
        Alg::Resnik => assert!(got.to_bits() == resnik.to_bits(), "Resnik = max IC over the common ancestors (terms included)"),
        Alg::Lin => assert!(got.to_bits() == ref_lin(&ic, A, B).to_bits(), "Lin = 2 * resnik / (ic(a) + ic(b)), 0 if that sum is 0"),
        Alg::Jc => {
            let e = if A == B {
                1.0
            } else if ic[A] == 0.0 || ic[B] == 0.0 {
                0.0
            } else {
                1.0 / (ic[A] + ic[B] - 2.0 * resnik + 1.0)
            };
            assert!(got.to_bits() == e.to_bits(), "JC = 1 / (ic(a) + ic(b) - 2 resnik + 1); 1 for identical terms; 0 without information");
        }
        Alg::Relevance => {
            let e = ref_lin(&ic, A, B) * (1.0 - model_exp(resnik * -1.0));
            assert!(got.to_bits() == e.to_bits(), "Relevance = lin * (1 - exp(-resnik))");
        }
        Alg::InfoCoeff => {
            let e = ref_lin(&ic, A, B) * (1.0 - (1.0 / (1.0 + resnik)));
            assert!(got.to_bits() == e.to_bits(), "IC-coefficient = lin * (1 - 1/(1 + resnik))");
        }
        Alg::GraphIc => {
            if A == B {
                assert!(got == 1.0, "a term compared with itself scores 1");
            } else {
                // sum of IC over the common ancestors (terms included) / sum over the union of the
                // ancestors; whether the union includes the two terms themselves is not fixed by the
                // documentation (see C12 all_union_ancestor_ids) -> both readings are accepted
                let common = (ANC[A] | 1 << A) & (ANC[B] | 1 << B);
                let union_excl = ANC[A] | ANC[B];
                let union_incl = union_excl | 1 << A | 1 << B;
                let sum = |mask: u8| -> f32 {
                    let mut v: [f32; 4] = [0.0; 4];
                    let mut n = 0;
                    let mut i = 0;
                    while i < 4 {
                        if mask >> i & 1 == 1 {
                            v[n] = ic[i];
                            n += 1;
                        }
                        i += 1;
                    }
                    v[..n].iter().sum::<f32>()
                };
                let e = |u: u8| -> f32 {
                    let s = sum(u);
                    if s == 0.0 {
                        0.0
                    } else {
                        sum(common) / s
                    }
                };
                let e1 = e(union_excl);
                let e2 = e(union_incl);
                assert!(got.to_bits() == e1.to_bits() || got.to_bits() == e2.to_bits(), "GraphIC = IC(common ancestors) / IC(union of ancestors)");
            }
        }
    }
    kani::cover!(got > 0.0, "positive score");
    kani::cover!(ic[A] != ic[B], "opt: terms with different information content");
    core::mem::forget(o);
}

macro_rules! sim {
    ($name:ident, $a:expr, $b:expr, $alg:expr, $kind:expr) => {
        #[kani::proof]
        #[kani::stub(std::hash::RandomState::new, stub_random_state)]
        #[kani::stub(f32::exp, model_exp)]
        #[kani::unwind(7)]
        fn $name() {
            sim_case::<$a, $b>($alg, $kind);
        }
    };
}
use InformationContentKind::{Gene, Omim, Orpha};
sim!(c04_resnik_siblings_gene, 2, 3, Alg::Resnik, Gene);
sim!(c04_resnik_desc_anc_omim, 2, 1, Alg::Resnik, Omim);
sim!(c04_lin_siblings_gene, 2, 3, Alg::Lin, Gene);
sim!(c04_lin_self_orpha, 2, 2, Alg::Lin, Orpha);
sim!(c04_jc_siblings_gene, 2, 3, Alg::Jc, Gene);
sim!(c04_jc_self_omim, 3, 3, Alg::Jc, Omim);
sim!(c04_jc_desc_root_orpha, 3, 0, Alg::Jc, Orpha);
sim!(c04_relevance_siblings_omim, 2, 3, Alg::Relevance, Omim);
sim!(c04_infocoeff_siblings_gene, 2, 3, Alg::InfoCoeff, Gene);
sim!(c04_infocoeff_desc_anc_orpha, 3, 1, Alg::InfoCoeff, Orpha);
sim!(c04_graphic_siblings_gene, 2, 3, Alg::GraphIc, Gene);
sim!(c04_graphic_desc_anc_omim, 2, 1, Alg::GraphIc, Omim);
sim!(c04_graphic_self_gene, 3, 3, Alg::GraphIc, Gene);

/// Mutation with all annotation sets empty (the only hash-set state that is affordable): identical
/// terms score 1, two distinct terms without any annotation score 0 - for each kind; never NaN.
fn mutation_case<const A: usize, const B: usize>(kind: InformationContentKind) {
    let (o, _ic) = build(kind);
    let ta = o.hpo(IDS[A]).unwrap();
    let tb = o.hpo(IDS[B]).unwrap();
    let got = Mutation::new(kind).calculate(&ta, &tb);
    assert!(!got.is_nan(), "score is never NaN");
    assert!(got == if A == B { 1.0 } else { 0.0 }, "1 for identical terms, 0 for distinct terms without annotations");
    kani::cover!(true, "mutation score computed");
    core::mem::forget(o);
}
macro_rules! mutn {
    ($name:ident, $a:expr, $b:expr, $kind:expr) => {
        #[kani::proof]
        #[kani::stub(std::hash::RandomState::new, stub_random_state)]
        #[kani::unwind(7)]
        fn $name() {
            mutation_case::<$a, $b>($kind);
        }
    };
}
mutn!(c04_mutation_distinct_gene, 2, 3, Gene);
mutn!(c04_mutation_distinct_omim, 2, 3, Omim);
mutn!(c04_mutation_distinct_orpha, 2, 1, Orpha);
mutn!(c04_mutation_self_gene, 2, 2, Gene);

/// Builtins dispatches to the matching algorithm and kind
#[kani::proof]
#[kani::stub(std::hash::RandomState::new, stub_random_state)]
#[kani::unwind(7)]
fn c04_builtins_dispatch_resnik_lin() {
    use crate::similarity::Builtins;
    let (o, _ic) = build(Omim);
    let ta = o.hpo(3u32).unwrap();
    let tb = o.hpo(4u32).unwrap();
    let r1 = Builtins::Resnik(Omim).calculate(&ta, &tb);
    let r2 = Resnik::new(Omim).calculate(&ta, &tb);
    assert!(r1.to_bits() == r2.to_bits());
    // a different kind reads different (here: zero) information contents
    let r3 = Builtins::Resnik(Gene).calculate(&ta, &tb);
    assert!(r3 == 0.0);
    kani::cover!(r1 > 0.0, "non-zero omim score, zero gene score");
    core::mem::forget(o);
}

#[kani::proof]
#[kani::stub(std::hash::RandomState::new, stub_random_state)]
#[kani::stub(f32::exp, model_exp)]
#[kani::unwind(7)]
fn c04_twin_must_fail() {
    sim_case::<2, 3>(Alg::Lin, Gene);
    assert!(false, "twin: reachability witness");
}
