//! C03 — information content kernel (compiled inside `hpo::term::information_content`).
//! `f32::ln` is non-deterministic in CBMC, so it is stubbed by a deterministic, strictly monotone
//! model; the harness decides the *structure* (zero rule, quotient current/total, sign, which field
//! is written, error border at u16::MAX), not libm's numerics.
use super::*;

fn model_ln(x: f32) -> f32 {
    x - 1.0
}

#[derive(Clone, Copy)]
enum Which {
    Gene,
    Omim,
    Orpha,
}

fn set(ic: &mut InformationContent, w: Which, total: usize, current: usize) -> HpoResult<()> {
    match w {
        Which::Gene => ic.set_gene(total, current),
        Which::Omim => ic.set_omim_disease(total, current),
        Which::Orpha => ic.set_orpha_disease(total, current),
    }
}

/// 0..=64, or one of the borders 65 535 (largest accepted) / 65 536 (first rejected)
fn small_or_border() -> usize {
    let a: usize = kani::any();
    kani::assume(a <= 66);
    if a <= 64 {
        a
    } else if a == 65 {
        65_535
    } else {
        65_536
    }
}

fn kernel(w: Which) {
    let g0: f32 = kani::any();
    let o0: f32 = kani::any();
    let r0: f32 = kani::any();
    kani::assume(g0.is_finite() && o0.is_finite() && r0.is_finite());
    let mut ic = InformationContent::default();
    *ic.gene_mut() = g0;
    *ic.omim_disease_mut() = o0;
    *ic.orpha_disease_mut() = r0;
    let total = small_or_border();
    let current = small_or_border();
    let res = set(&mut ic, w, total, current);
    let (new, old, others_same) = match w {
        Which::Gene => (ic.gene(), g0, ic.omim_disease() == o0 && ic.orpha_disease() == r0),
        Which::Omim => (ic.omim_disease(), o0, ic.gene() == g0 && ic.orpha_disease() == r0),
        Which::Orpha => (ic.orpha_disease(), r0, ic.gene() == g0 && ic.omim_disease() == o0),
    };
    assert!(others_same, "only the addressed kind is written");
    if total == 0 || current == 0 {
        assert!(res.is_ok() && new == 0.0, "IC is 0 when n or N is 0");
        kani::cover!(total == 0 && current > 0, "no records of the kind");
    } else if total > 65_535 || current > 65_535 {
        assert!(res.is_err(), "counts above u16::MAX are rejected");
        assert!(new == old, "a rejected call leaves the value unchanged");
        kani::cover!(total == 65_536, "first rejected total");
    } else {
        assert!(res.is_ok());
        let q = current as f32 / total as f32;
        let expected = model_ln(q) * -1.0;
        assert!(new.to_bits() == expected.to_bits(), "IC = -ln(current / total)");
        if current <= total {
            assert!(new >= 0.0 && new.is_finite(), "never negative, finite");
        }
        kani::cover!(current == total, "term linked to all records");
        kani::cover!(total == 65_535 && current == 1, "largest accepted total");
    }
    core::mem::forget(res);
}

#[kani::proof]
#[kani::stub(f32::ln, model_ln)]
fn c03_kernel_gene() {
    kernel(Which::Gene);
}
#[kani::proof]
#[kani::stub(f32::ln, model_ln)]
fn c03_kernel_omim() {
    kernel(Which::Omim);
}
#[kani::proof]
#[kani::stub(f32::ln, model_ln)]
fn c03_kernel_orpha() {
    kernel(Which::Orpha);
}

/// IC does not increase when the number of linked records grows (same total): needs ln monotone
/// (model) and the real f32 division.
#[kani::proof]
#[kani::stub(f32::ln, model_ln)]
fn c03_monotone_in_current() {
    let total: usize = kani::any();
    let c1: usize = kani::any();
    let c2: usize = kani::any();
    kani::assume(total >= 1 && total <= 64 && c1 >= 1 && c1 <= c2 && c2 <= total);
    let mut a = InformationContent::default();
    let mut b = InformationContent::default();
    a.set_gene(total, c1).unwrap();
    b.set_gene(total, c2).unwrap();
    assert!(a.gene() >= b.gene(), "fewer linked records => IC at least as large");
    kani::cover!(c1 < c2 && c2 < total, "strictly fewer records");
}

/// get_kind dispatches to the matching field
#[kani::proof]
fn c03_get_kind_dispatch() {
    let g: f32 = kani::any();
    let o: f32 = kani::any();
    let r: f32 = kani::any();
    kani::assume(!g.is_nan() && !o.is_nan() && !r.is_nan());
    let mut ic = InformationContent::default();
    assert!(ic.gene() == 0.0 && ic.omim_disease() == 0.0 && ic.orpha_disease() == 0.0);
    *ic.gene_mut() = g;
    *ic.omim_disease_mut() = o;
    *ic.orpha_disease_mut() = r;
    assert!(ic.get_kind(&InformationContentKind::Gene).to_bits() == g.to_bits());
    assert!(ic.get_kind(&InformationContentKind::Omim).to_bits() == o.to_bits());
    assert!(ic.get_kind(&InformationContentKind::Orpha).to_bits() == r.to_bits());
    kani::cover!(g != o && o != r && g != r, "three different values");
}

#[kani::proof]
#[kani::stub(f32::ln, model_ln)]
fn c03_twin_must_fail() {
    let mut ic = InformationContent::default();
    let total = small_or_border();
    let current = small_or_border();
    let r = ic.set_gene(total, current);
    core::mem::forget(r);
    assert!(false, "twin: reachability witness");
}
