//! C10 — the term table (`Arena`) is an exact map id -> term (compiled inside `hpo::ontology::termarena`).
//! Also exports `small_arena`, the direct-state constructor every ontology-level harness uses instead of
//! `Arena::default()` (10^7-entry table + 18 000-slot buffer, out of CBMC's reach; DESIGN §1).
use super::*;
#[allow(unused_imports)]
use crate::annotations::AnnotationId as _;

/// fixed keys instead of OS randomness; every harness that creates a std hash container stubs
/// `std::hash::RandomState::new` with this
pub(crate) fn stub_random_state() -> std::hash::RandomState {
    // SAFETY: RandomState is two u64 keys
    unsafe { core::mem::transmute::<(u64, u64), std::hash::RandomState>((0u64, 0u64)) }
}

/// An empty arena with an id table of `table` entries (ids >= table are outside the stub arena and
/// behave like ids >= 10^7 in the real one) and the fake slot-0 term, exactly as `Arena::default()`
/// builds it apart from the sizes.
pub(crate) fn small_arena(table: usize) -> Arena {
    // allocator-zeroed table (as `Arena::default()` builds it): the C10 harnesses index it with
    // SYMBOLIC ids/keys, for which one zeroed array object is far cheaper than individually
    // written cells (1 GB vs > 14 GB); `small_arena_cap` below is for CONCRETE ids
    let mut s = Arena {
        terms: Vec::with_capacity(8),
        ids: vec![0; table],
    };
    s.terms.push(HpoTermInternal::default());
    s
}

/// same with an explicit capacity of the term buffer (fake term included): the buffer is one CBMC
/// object, and every access through a slot number read back from the id table is a symbolic-offset
/// access into it, so its size is a first-order cost
pub(crate) fn small_arena_cap(table: usize, cap: usize) -> Arena {
    // every table cell is written by its own straight-line store (no loop: the harness-wide unwind
    // bound is smaller than the table): a cell that was only zeroed by the allocator or filled by memcpy
    // (`vec![0; n]` -> calloc) is not a constant for CBMC's symbolic execution, so a lookup of an
    // ABSENT id would also walk the "present" arm with a symbolic slot number
    let mut ids: Vec<usize> = Vec::with_capacity(table);
    match table {
        1 => ids.push(0),
        2 => {
            ids.push(0);
            ids.push(0);
        }
        8 => push8(&mut ids),
        16 => {
            push8(&mut ids);
            push8(&mut ids);
        }
        128 => {
            push64(&mut ids);
            push64(&mut ids);
        }
        _ => panic!("VERIF: unsupported stub table size"),
    }
    let mut s = Arena {
        terms: Vec::with_capacity(cap),
        ids,
    };
    s.terms.push(HpoTermInternal::default());
    s
}

fn push8(v: &mut Vec<usize>) {
    v.push(0);
    v.push(0);
    v.push(0);
    v.push(0);
    v.push(0);
    v.push(0);
    v.push(0);
    v.push(0);
}
fn push64(v: &mut Vec<usize>) {
    push8(v);
    push8(v);
    push8(v);
    push8(v);
    push8(v);
    push8(v);
    push8(v);
    push8(v);
}

fn named(id: u32, name: &str) -> HpoTermInternal {
    HpoTermInternal::new(String::from(name), HpoTermId::from_u32(id))
}

/// insert with a symbolic id (below the table size), observed through the private table:
/// the id maps to the next free slot, no other id is touched, a second insert of the same id is
/// ignored (first insertion wins), a different id gets the following slot.
#[kani::proof]
#[kani::stub(std::hash::RandomState::new, stub_random_state)]
#[kani::unwind(18)]
fn c10_arena_insert_symbolic_ids() {
    let mut a = small_arena(16);
    let i1: u32 = kani::any();
    let i2: u32 = kani::any();
    kani::assume(i1 < 16 && i2 < 16);
    a.insert(named(i1, "a"));
    assert!(a.len() == 1 && a.terms.len() == 2);
    assert!(a.ids[i1 as usize] == 1);
    a.insert(named(i2, "b"));
    let distinct = i1 != i2;
    assert!(a.len() == if distinct { 2 } else { 1 }, "len counts distinct ids");
    assert!(a.ids[i1 as usize] == 1, "first insertion keeps its slot");
    if distinct {
        assert!(a.ids[i2 as usize] == 2);
        assert!(a.terms[2].id().as_u32() == i2 && a.terms[2].name().as_bytes()[0] == b'b');
    }
    assert!(a.terms[1].id().as_u32() == i1 && a.terms[1].name().as_bytes()[0] == b'a', "first insertion wins");
    let j: usize = kani::any();
    kani::assume(j < 16);
    if j != i1 as usize && j != i2 as usize {
        assert!(a.ids[j] == 0, "no other id is mapped");
    }
    assert!(a.ids.len() == 16);
    kani::cover!(i1 == 0 && distinct, "id 0 is an ordinary id");
    kani::cover!(!distinct, "duplicate insert");
}

/// one insert with a symbolic id into an arena that already holds id 3
#[kani::proof]
#[kani::stub(std::hash::RandomState::new, stub_random_state)]
#[kani::unwind(18)]
fn c10_arena_insert_one_symbolic_id() {
    let mut a = small_arena(16);
    a.insert(named(3, "a"));
    let i2: u32 = kani::any();
    kani::assume(i2 < 16);
    a.insert(named(i2, "b"));
    let distinct = i2 != 3;
    assert!(a.len() == if distinct { 2 } else { 1 }, "len counts distinct ids");
    assert!(a.ids[3] == 1, "first insertion keeps its slot");
    assert!(a.terms[1].id().as_u32() == 3 && a.terms[1].name().as_bytes()[0] == b'a', "first insertion wins");
    if distinct {
        assert!(a.ids[i2 as usize] == 2);
        assert!(a.terms[2].id().as_u32() == i2 && a.terms[2].name().as_bytes()[0] == b'b');
    }
    let j: usize = kani::any();
    kani::assume(j < 16);
    if j != 3 && j != i2 as usize {
        assert!(a.ids[j] == 0, "no other id is mapped");
    }
    kani::cover!(i2 == 0, "id 0 is an ordinary id");
    kani::cover!(!distinct, "duplicate insert");
}

/// lookup with ANY u32 key in an arena holding the ids {0, 3, 9}: Some iff inserted, the returned
/// term carries the key and the data it was inserted with; get_mut agrees; iteration is exact.
#[kani::proof]
#[kani::stub(std::hash::RandomState::new, stub_random_state)]
#[kani::unwind(18)]
fn c10_arena_get_any_key() {
    let mut a = small_arena(16);
    a.insert(named(3, "a"));
    a.insert(named(0, "z"));
    a.insert(named(9, "b"));
    a.insert(named(3, "x")); // duplicate: ignored
    assert!(a.len() == 3);
    let key: u32 = kani::any();
    // The stub table has 16 entries, the real one exactly 10^7. For keys in [16, 10^7) the two differ
    // (a correct implementation may rely on `ids.len() == 10^7`), so those keys are outside the claim;
    // keys >= 10^7 must be answered with None by any implementation.
    kani::assume(key < 16 || key >= 10_000_000);
    let k = HpoTermId::from_u32(key);
    let inserted = key == 0 || key == 3 || key == 9;
    match a.get(k) {
        Some(t) => {
            assert!(inserted, "only inserted ids are found");
            assert!(*t.id() == k, "returned term carries the requested id");
            let n = t.name().as_bytes()[0];
            assert!(n == if key == 3 { b'a' } else if key == 0 { b'z' } else { b'b' }, "data preserved, first insertion wins");
        }
        None => assert!(!inserted, "every inserted id is found"),
    }
    assert!(a.get_mut(k).is_some() == inserted, "get_mut agrees with get");
    kani::cover!(key == 0, "id 0 looked up");
    kani::cover!(key == 10_000_000, "first key beyond the id space");
    kani::cover!(key == u32::MAX, "u32::MAX looked up");
    kani::cover!(key == 4, "absent key inside the table");
}

/// iteration: every inserted id exactly once, insertion order, never the fake slot 0; agrees with len()
#[kani::proof]
#[kani::stub(std::hash::RandomState::new, stub_random_state)]
#[kani::unwind(18)]
fn c10_arena_iteration() {
    let mut a = small_arena(16);
    assert!(a.iter().next().is_none() && a.keys().is_empty() && a.values().is_empty() && a.len() == 0);
    let n: usize = 3;
    let ids = [7u32, 0, 12];
    let mut i = 0;
    while i < n {
        a.insert(named(ids[i], "t"));
        i += 1;
    }
    assert!(a.len() == n);
    let keys = a.keys();
    assert!(keys.len() == n);
    assert!(a.values().len() == n);
    let mut it = a.iter();
    let mut i = 0;
    while i < n {
        assert!(keys[i].as_u32() == ids[i]);
        assert!(a.values()[i].id().as_u32() == ids[i]);
        assert!(it.next() == Some(HpoTermId::from_u32(ids[i])));
        i += 1;
    }
    assert!(it.next().is_none());
    kani::cover!(n == 3, "three terms iterated");
}

/// lookup in an empty arena with any u32 key: None, no panic
#[kani::proof]
#[kani::stub(std::hash::RandomState::new, stub_random_state)]
#[kani::unwind(18)]
fn c10_arena_empty_any_key() {
    let mut a = small_arena(16);
    let key: u32 = kani::any();
    kani::assume(key < 16 || key >= 10_000_000);
    assert!(a.get(HpoTermId::from_u32(key)).is_none());
    assert!(a.get_mut(HpoTermId::from_u32(key)).is_none());
    assert!(a.len() == 0);
    assert!(a.iter().next().is_none());
    assert!(a.keys().is_empty());
    assert!(a.values().is_empty());
    kani::cover!(key == u32::MAX, "u32::MAX looked up");
}

/// get_unchecked / get_unchecked_mut agree with get for a present (symbolic) id
#[kani::proof]
#[kani::stub(std::hash::RandomState::new, stub_random_state)]
#[kani::unwind(18)]
fn c10_arena_unchecked_agrees() {
    let mut a = small_arena(8);
    a.insert(named(5, "a"));
    a.insert(named(2, "b"));
    a.insert(named(7, "c"));
    let sel: usize = kani::any();
    kani::assume(sel < 3);
    let k = HpoTermId::from_u32([5u32, 2, 7][sel]);
    let expected = [b'a', b'b', b'c'][sel];
    assert!(a.get_unchecked(k).name().as_bytes()[0] == expected);
    assert!(a.get_unchecked_mut(k).name().as_bytes()[0] == expected);
    assert!(a.get(k).unwrap().name().as_bytes()[0] == expected);
    assert!(*a.get_unchecked(k).id() == k);
    kani::cover!(sel == 2, "third term");
}

/// compile-time facts the real table relies on
#[kani::proof]
fn c10_id_space_constant() {
    assert!(HPO_TERM_NUMBERS == 10_000_000);
    kani::cover!(true, "constant checked");
}

#[kani::proof]
#[kani::stub(std::hash::RandomState::new, stub_random_state)]
#[kani::unwind(18)]
fn c10_twin_must_fail() {
    let mut a = small_arena(16);
    let i1: u32 = kani::any();
    kani::assume(i1 < 16);
    a.insert(named(i1, "a"));
    let key: u32 = kani::any();
    let _ = a.get(HpoTermId::from_u32(key));
    assert!(false, "twin: reachability witness");
}
