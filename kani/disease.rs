//! C07/C08 — the disease record of the binary format, for both disease types (OMIM has its own
//! encoder, ORPHA uses the trait default). Compiled inside `hpo::annotations::disease`.
//! Layout: total_len u32 BE | disease id u32 BE | name_len u32 BE | name | n_terms u32 BE | n_terms x term id u32 BE
use super::*;
use crate::annotations::{OmimDisease, OrphaDisease};

fn be(b: &[u8], at: usize) -> u32 {
    ((b[at] as u32) << 24) | ((b[at + 1] as u32) << 16) | ((b[at + 2] as u32) << 8) | b[at + 3] as u32
}
fn put(b: &mut [u8], at: usize, v: u32) {
    b[at] = (v >> 24) as u8;
    b[at + 1] = (v >> 16) as u8;
    b[at + 2] = (v >> 8) as u8;
    b[at + 3] = v as u8;
}

fn decode_exact<D: Disease, const NAME: usize, const TERMS: usize, const L: usize>() {
    assert!(L == 16 + NAME + 4 * TERMS);
    let mut buf: [u8; L] = kani::any();
    put(&mut buf, 0, L as u32);
    put(&mut buf, 8, NAME as u32);
    put(&mut buf, 12 + NAME, TERMS as u32);
    let r = D::from_bytes(&buf[..]);
    let name_ok = core::str::from_utf8(&buf[12..12 + NAME]).is_ok();
    match &r {
        Ok(d) => {
            assert!(name_ok, "a name that is not UTF-8 is rejected");
            assert!(d.id().as_u32() == be(&buf, 4), "disease id = bytes 4..8 big-endian");
            let nb = d.name().as_bytes();
            assert!(nb.len() == NAME);
            let mut i = 0;
            while i < NAME {
                assert!(nb[i] == buf[12 + i], "name bytes preserved");
                i += 1;
            }
            let mut distinct = 0;
            let mut t = 0;
            while t < TERMS {
                let id = be(&buf, 16 + NAME + 4 * t);
                assert!(d.hpo_terms().contains(&HpoTermId::from_u32(id)), "every listed term is linked");
                let mut seen = false;
                let mut s = 0;
                while s < t {
                    if be(&buf, 16 + NAME + 4 * s) == id {
                        seen = true;
                    }
                    s += 1;
                }
                if !seen {
                    distinct += 1;
                }
                t += 1;
            }
            assert!(d.hpo_terms().len() == distinct, "no other term is linked");
            kani::cover!(true, "record accepted");
        }
        Err(_) => {
            assert!(!name_ok, "a well-formed record is accepted");
            kani::cover!(NAME > 0, "opt: invalid UTF-8 name rejected");
        }
    }
    core::mem::forget(r);
}

macro_rules! dec {
    ($name:ident, $d:ty, $n:expr, $t:expr) => {
        #[kani::proof]
        #[kani::unwind(8)]
        fn $name() {
            decode_exact::<$d, $n, $t, { 16 + $n + 4 * $t }>();
        }
    };
}
dec!(c07_omim_decode_n0_t0, OmimDisease, 0, 0);
dec!(c07_omim_decode_n1_t1, OmimDisease, 1, 1);
dec!(c07_omim_decode_n2_t2, OmimDisease, 2, 2);
dec!(c07_omim_decode_n3_t1, OmimDisease, 3, 1);
dec!(c07_orpha_decode_n0_t0, OrphaDisease, 0, 0);
dec!(c07_orpha_decode_n1_t1, OrphaDisease, 1, 1);
dec!(c07_orpha_decode_n2_t2, OrphaDisease, 2, 2);
dec!(c07_orpha_decode_n3_t1, OrphaDisease, 3, 1);

fn decode_wrong_length<D: Disease, const NAME: usize, const TERMS: usize, const L: usize, const LX: usize, const LO: usize>() {
    assert!(L == 16 + NAME + 4 * TERMS && LX == L + 4);
    let mut buf: [u8; LX] = kani::any();
    let total: u32 = kani::any();
    put(&mut buf, 0, total);
    put(&mut buf, 8, NAME as u32);
    put(&mut buf, 12 + NAME, TERMS as u32);
    let mut len = LO;
    while len <= LX {
        if len != L {
            let r = D::from_bytes(&buf[..len]);
            let ok = r.is_ok();
            core::mem::forget(r);
            assert!(!ok, "truncated or extended record must be rejected");
        }
        len += 1;
    }
    if total != L as u32 {
        let r = D::from_bytes(&buf[..L]);
        let ok = r.is_ok();
        core::mem::forget(r);
        assert!(!ok, "length field disagreeing with the data must be rejected");
        kani::cover!(total == L as u32 + 1, "total one too large");
    }
    kani::cover!(total == L as u32, "consistent total, wrong slice lengths");
}

/// One wrong slice length LEN != L for a record announcing (NAME, TERMS); total-length field any u32.
fn wrong_len_one<D: Disease, const NAME: usize, const TERMS: usize, const L: usize, const LEN: usize>() {
    assert!(L == 16 + NAME + 4 * TERMS && LEN != L);
    let mut buf: [u8; LEN] = kani::any();
    let total: u32 = kani::any();
    if LEN >= 4 {
        put(&mut buf, 0, total);
    }
    if LEN >= 12 {
        put(&mut buf, 8, NAME as u32);
    }
    if LEN >= 16 + NAME {
        put(&mut buf, 12 + NAME, TERMS as u32);
    }
    let r = D::from_bytes(&buf[..]);
    let ok = r.is_ok();
    core::mem::forget(r);
    assert!(!ok, "truncated or extended record must be rejected");
    kani::cover!(total == LEN as u32, "total-length field agrees with the (wrong) slice length");
    kani::cover!(total == L as u32, "total-length field as the full record announces");
}
macro_rules! wl {
    ($name:ident, $d:ty, $n:expr, $t:expr, $len:expr) => {
        #[kani::proof]
        #[kani::unwind(8)]
        fn $name() {
            wrong_len_one::<$d, $n, $t, { 16 + $n + 4 * $t }, $len>();
        }
    };
}
wl!(c08_omim_n1_t1_cut1, OmimDisease, 1, 1, 20);
wl!(c08_omim_n1_t1_cut4, OmimDisease, 1, 1, 17);
wl!(c08_omim_n1_t1_ext1, OmimDisease, 1, 1, 22);
wl!(c08_omim_n1_t1_ext4, OmimDisease, 1, 1, 25);
wl!(c08_orpha_n1_t1_cut1, OrphaDisease, 1, 1, 20);
wl!(c08_orpha_n1_t1_cut4, OrphaDisease, 1, 1, 17);
wl!(c08_orpha_n1_t1_ext1, OrphaDisease, 1, 1, 22);
wl!(c08_orpha_n1_t1_ext4, OrphaDisease, 1, 1, 25);

fn encode<D: Disease, const NAME: usize, const TERMS: usize, const L: usize>() {
    assert!(L == 16 + NAME + 4 * TERMS);
    let nb: [u8; NAME] = kani::any();
    let Ok(name) = core::str::from_utf8(&nb) else {
        return;
    };
    let id: u32 = kani::any();
    let t: [u32; TERMS] = kani::any();
    let mut d = D::new(D::AnnoID::from(id), name);
    let mut i = 0;
    while i < TERMS {
        if i > 0 {
            kani::assume(t[i - 1] != t[i]);
        }
        d.add_term(t[i]);
        i += 1;
    }
    let out = d.as_bytes();
    assert!(out.len() == L, "record length");
    assert!(be(&out, 0) == L as u32, "total length field");
    assert!(be(&out, 4) == id, "disease id field");
    assert!(be(&out, 8) == NAME as u32, "name length field");
    let mut i = 0;
    while i < NAME {
        assert!(out[12 + i] == nb[i], "name bytes");
        i += 1;
    }
    assert!(be(&out, 12 + NAME) == TERMS as u32, "number of terms");
    if TERMS == 1 {
        assert!(be(&out, 16 + NAME) == t[0]);
    }
    if TERMS == 2 {
        let (lo, hi) = if t[0] < t[1] { (t[0], t[1]) } else { (t[1], t[0]) };
        assert!(be(&out, 16 + NAME) == lo && be(&out, 20 + NAME) == hi, "term ids ascending, big-endian");
    }
    kani::cover!(true, "encoded");
    kani::cover!(NAME > 1 && nb[0] >= 0x80, "opt: multi-byte character in the name");
    core::mem::forget(out);
}

macro_rules! enc {
    ($name:ident, $d:ty, $n:expr, $t:expr) => {
        #[kani::proof]
        #[kani::unwind(8)]
        fn $name() {
            encode::<$d, $n, $t, { 16 + $n + 4 * $t }>();
        }
    };
}
enc!(c07_omim_encode_n0_t0, OmimDisease, 0, 0);
enc!(c07_omim_encode_n1_t1, OmimDisease, 1, 1);
enc!(c07_omim_encode_n3_t2, OmimDisease, 3, 2);
enc!(c07_omim_encode_n2_t0, OmimDisease, 2, 0);
enc!(c07_orpha_encode_n0_t0, OrphaDisease, 0, 0);
enc!(c07_orpha_encode_n1_t1, OrphaDisease, 1, 1);
enc!(c07_orpha_encode_n3_t2, OrphaDisease, 3, 2);
enc!(c07_orpha_encode_n2_t0, OrphaDisease, 2, 0);

/// a fixed multi-byte name ("é" = C3 A9) with symbolic id and term: the length fields count BYTES.
/// (With the name bytes symbolic a char-counting encoder is intractable for CBMC; this instance keeps
/// the name concrete so that such a change yields a counterexample instead of a timeout.)
fn encode_multibyte_name<D: Disease>() {
    let id: u32 = kani::any();
    let t: u32 = kani::any();
    let mut d = D::new(D::AnnoID::from(id), "\u{e9}");
    d.add_term(t);
    let out = d.as_bytes();
    assert!(out.len() == 16 + 2 + 4, "record length counts name bytes");
    assert!(be(&out, 0) == 22, "total length field");
    assert!(be(&out, 4) == id);
    assert!(be(&out, 8) == 2, "name length field counts bytes, not characters");
    assert!(out[12] == 0xC3 && out[13] == 0xA9);
    assert!(be(&out, 14) == 1 && be(&out, 18) == t);
    kani::cover!(id > 0xFFFFFF, "id with the high byte set");
    core::mem::forget(out);
}
#[kani::proof]
#[kani::unwind(8)]
fn c07_omim_encode_multibyte_name() {
    encode_multibyte_name::<OmimDisease>();
}
#[kani::proof]
#[kani::unwind(8)]
fn c07_orpha_encode_multibyte_name() {
    encode_multibyte_name::<OrphaDisease>();
}

#[kani::proof]
#[kani::unwind(8)]
fn c07_disease_twin_must_fail() {
    decode_exact::<OmimDisease, 1, 1, 21>();
    assert!(false, "twin: reachability witness");
}

#[kani::proof]
#[kani::unwind(23)]
fn c08_omim_wrong_length_n0_t0() {
    decode_wrong_length::<OmimDisease, 0, 0, 16, 20, 0>();
}
#[kani::proof]
#[kani::unwind(23)]
fn c08_orpha_wrong_length_n0_t0() {
    decode_wrong_length::<OrphaDisease, 0, 0, 16, 20, 0>();
}
