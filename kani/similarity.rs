//! C05 — the three standard combiners on an |A| x |B| matrix (compiled inside `hpo::similarity`).
use super::*;

/// Entries are drawn from the grid k/8, k: i8 (256 exactly representable values per entry, negative
/// ones included - a user-supplied similarity may return them; sums and maxima exact), so the
/// reference takes maxima and sums in integers, converts once and then
/// performs the same final f32 operations (DESIGN §5 C05: the full-range f32 query is a genuine
/// FP-equivalence problem that does not finish).
fn combiner<const R: usize, const C: usize, const N: usize, const SIGNED: bool>(which: StandardCombiner) {
    assert!(N == R * C);
    let k: [i8; N] = kani::any();
    let mut data = [0f32; N];
    let mut i = 0;
    while i < N {
        if !SIGNED {
            // non-negative half of the grid (the range of every built-in similarity): 2x2 in ~1 min;
            // with negative entries the same 2x2 query needs ~10 min, so those get their own instances
            kani::assume(k[i] >= 0);
        }
        data[i] = k[i] as f32 / 8.0;
        i += 1;
    }
    let m = Matrix::new(R, C, &data);
    let got = which.calculate(&m);

    let mut rs: i32 = 0; // sum of row maxima
    let mut i = 0;
    while i < R {
        let mut mx = k[i * C];
        let mut j = 1;
        while j < C {
            if k[i * C + j] > mx {
                mx = k[i * C + j];
            }
            j += 1;
        }
        rs += mx as i32;
        i += 1;
    }
    let mut cs: i32 = 0; // sum of column maxima
    let mut j = 0;
    while j < C {
        let mut mx = k[j];
        let mut i = 1;
        while i < R {
            if k[i * C + j] > mx {
                mx = k[i * C + j];
            }
            i += 1;
        }
        cs += mx as i32;
        j += 1;
    }
    let rsf = rs as f32 / 8.0;
    let csf = cs as f32 / 8.0;
    let rows = R as f32;
    let cols = C as f32;
    let expected = match which {
        StandardCombiner::FunSimAvg => {
            let mut nom = rsf / rows;
            nom += csf / cols;
            nom / 2.0
        }
        StandardCombiner::FunSimMax => {
            let a = rsf / rows;
            let b = csf / cols;
            if a > b {
                a
            } else {
                b
            }
        }
        StandardCombiner::Bma => (rsf + csf) / (rows + cols),
    };
    // -0.0 and +0.0 are the same score: compare values, not bit patterns, when the result is zero
    assert!(got == expected && (got != 0.0 || expected == 0.0), "combiner equals its documented formula");
    assert!(got.is_finite());
    kani::cover!(rs != cs, "opt: row and column maxima sums differ");
    kani::cover!(rs > 0, "positive row maxima");
    kani::cover!(SIGNED && cs < 0, "opt: all-negative columns");
    kani::cover!(R != C && rs * (C as i32) != cs * (R as i32), "opt: non-square with different means");
}

macro_rules! comb_harness {
    ($name:ident, $r:expr, $c:expr, $w:expr) => {
        #[kani::proof]
        #[kani::unwind(11)]
        fn $name() {
            combiner::<$r, $c, { $r * $c }, false>($w);
        }
    };
}
comb_harness!(c05_funsimavg_1x2, 1, 2, StandardCombiner::FunSimAvg);
comb_harness!(c05_funsimavg_2x1, 2, 1, StandardCombiner::FunSimAvg);
comb_harness!(c05_funsimavg_2x2, 2, 2, StandardCombiner::FunSimAvg);
comb_harness!(c05_funsimavg_2x3, 2, 3, StandardCombiner::FunSimAvg);
comb_harness!(c05_funsimavg_3x2, 3, 2, StandardCombiner::FunSimAvg);
comb_harness!(c05_funsimavg_3x3, 3, 3, StandardCombiner::FunSimAvg);
comb_harness!(c05_funsimmax_1x2, 1, 2, StandardCombiner::FunSimMax);
comb_harness!(c05_funsimmax_2x1, 2, 1, StandardCombiner::FunSimMax);
comb_harness!(c05_funsimmax_2x2, 2, 2, StandardCombiner::FunSimMax);
comb_harness!(c05_funsimmax_2x3, 2, 3, StandardCombiner::FunSimMax);
comb_harness!(c05_funsimmax_3x2, 3, 2, StandardCombiner::FunSimMax);
comb_harness!(c05_funsimmax_3x3, 3, 3, StandardCombiner::FunSimMax);
comb_harness!(c05_bma_1x2, 1, 2, StandardCombiner::Bma);
comb_harness!(c05_bma_2x1, 2, 1, StandardCombiner::Bma);
comb_harness!(c05_bma_2x2, 2, 2, StandardCombiner::Bma);
comb_harness!(c05_bma_2x3, 2, 3, StandardCombiner::Bma);
comb_harness!(c05_bma_3x2, 3, 2, StandardCombiner::Bma);
comb_harness!(c05_bma_3x3, 3, 3, StandardCombiner::Bma);

macro_rules! comb_signed {
    ($name:ident, $r:expr, $c:expr, $w:expr) => {
        #[kani::proof]
        #[kani::unwind(11)]
        fn $name() {
            combiner::<$r, $c, { $r * $c }, true>($w);
        }
    };
}
comb_signed!(c05_signed_funsimavg_1x2, 1, 2, StandardCombiner::FunSimAvg);
comb_signed!(c05_signed_funsimmax_2x1, 2, 1, StandardCombiner::FunSimMax);
comb_signed!(c05_signed_bma_2x1, 2, 1, StandardCombiner::Bma);
comb_signed!(c05_signed_bma_2x2, 2, 2, StandardCombiner::Bma);
comb_signed!(c05_signed_funsimavg_2x2, 2, 2, StandardCombiner::FunSimAvg);
comb_signed!(c05_signed_funsimmax_2x2, 2, 2, StandardCombiner::FunSimMax);

/// empty matrix => 0 for all three combiners (either set empty)
#[kani::proof]
#[kani::unwind(4)]
fn c05_empty_matrix_is_zero() {
    let data: [f32; 0] = [];
    let rows: usize = kani::any();
    let cols: usize = kani::any();
    kani::assume((rows == 0 && cols <= 3) || (cols == 0 && rows <= 3));
    let m = Matrix::new(rows, cols, &data);
    assert!(StandardCombiner::FunSimAvg.calculate(&m) == 0.0);
    assert!(StandardCombiner::FunSimMax.calculate(&m) == 0.0);
    assert!(StandardCombiner::Bma.calculate(&m) == 0.0);
    assert!(StandardCombiner::default() == StandardCombiner::FunSimAvg);
    kani::cover!(rows == 0 && cols == 3, "empty first set");
    kani::cover!(rows == 2 && cols == 0, "empty second set");
}

#[kani::proof]
#[kani::unwind(6)]
fn c05_twin_must_fail() {
    combiner::<2, 2, 4, false>(StandardCombiner::Bma);
    assert!(false, "twin: reachability witness");
}

// ---------------------------------------------------------------------------------------------
// C05: the caching adaptor never changes a result (also for an asymmetric user similarity)
// ---------------------------------------------------------------------------------------------
use crate::ontology::verif_kani::{empty_ontology_cap, stub_random_state};
use crate::term::group::verif_kani::Parts;
use crate::term::HpoGroup;

struct Asym {
    lo_hi: f32,
    hi_lo: f32,
    same: f32,
}
impl Similarity for Asym {
    fn calculate(&self, a: &HpoTerm, b: &HpoTerm) -> f32 {
        if a.id() < b.id() {
            self.lo_hi
        } else if a.id() > b.id() {
            self.hi_lo
        } else {
            self.same
        }
    }
}

#[kani::proof]
#[kani::stub(std::hash::RandomState::new, stub_random_state)]
#[kani::unwind(7)]
fn c05_cached_similarity_is_transparent() {
    let o = empty_ontology_cap(1, 1);
    let pa = Parts::new(3, HpoGroup::default(), HpoGroup::default(), HpoGroup::default());
    let pb = Parts::new(7, HpoGroup::default(), HpoGroup::default(), HpoGroup::default());
    let a = pa.view(&o);
    let b = pb.view(&o);
    let x: f32 = kani::any();
    let y: f32 = kani::any();
    let z: f32 = kani::any();
    kani::assume(!x.is_nan() && !y.is_nan() && !z.is_nan());
    let cached = CachedSimilarity::new(Asym { lo_hi: x, hi_lo: y, same: z });
    assert!(cached.calculate(&a, &b).to_bits() == x.to_bits(), "first lookup");
    assert!(cached.calculate(&b, &a).to_bits() == y.to_bits(), "swapped arguments are a different pair");
    assert!(cached.calculate(&a, &b).to_bits() == x.to_bits(), "second lookup of the same pair");
    assert!(cached.calculate(&a, &a).to_bits() == z.to_bits(), "identical terms");
    kani::cover!(x != y, "asymmetric similarity");
    core::mem::forget(cached);
    core::mem::forget(o);
}
