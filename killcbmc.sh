#!/bin/bash
# kill all cbmc / kani-driver processes (by exact comm, not pattern on cmdline)
for p in $(ps -eo pid,comm | awk '$2=="cbmc" || $2=="kani-driver" || $2=="goto-instrument" {print $1}'); do kill -9 $p 2>/dev/null; done
