#!/usr/bin/env python3
"""Regenerates MANIFEST.json from harnesses.py + manifest_meta.py (run after editing either)."""
import json, os, sys
HERE = os.path.dirname(os.path.abspath(__file__))
sys.path.insert(0, HERE)
import harnesses as REG
import manifest_meta as M

checks = []
for pid in sorted(REG.PROPERTIES):
    if pid not in M.CLAIMED:
        continue
    meta = M.CLAIMED[pid]
    checks.append({
        "property_id": pid,
        "quick_cmd": "./check %s --tier quick" % pid,
        "thorough_cmd": "./check %s --tier thorough" % pid,
        "evidence_file": "/verif/evidence/%s.json" % pid,
        "replay_cmd_template": "./check %s --replay {path}" % pid,
        "engine": "kani-cbmc",
        "level_claimed": {"category": "model_checking", "text": meta["text"], "design_ref": "DESIGN.md §5 " + pid},
        "level_note": meta["note"],
        "technique": meta.get("technique", "bounded symbolic execution of the real Rust code (Kani 0.68 -> CBMC 6.11 -> CaDiCaL SAT), kani::any() inputs, unwinding assertions on, counterexamples replayed natively"),
    })
man = {
    "version": 1,
    "setup_cmd": "./setup.sh",
    "hooks": {
        "guard": "cfg(kani)",
        "enable": "cargo kani sets --cfg=kani; each hooked module then includes /verif/kani/<module>.rs via #[cfg(kani)] #[path=...] mod verif_kani; (the driver works on a scratch copy of /repo's working tree with smallvec/tracing patched to /verif/shims)",
        "baseline_off_cmd": "cd /repo && cargo test --workspace --no-fail-fast --offline",
        "source_commits": M.HOOK_COMMITS,
        "add_only": True,
    },
    "engines": [{"name": "kani-cbmc", "path": "/verif/check", "serves_properties": sorted(M.CLAIMED),
                 "kind_free_text": "Kani 0.68.0 proof harnesses compiled inside the hpo crate (cfg(kani)), decided by CBMC 6.11.0 + CaDiCaL with unwinding assertions; concrete playback for native replay"}],
    "checks": checks,
    "notes": M.NOTES,
    "not_applicable": [{"property_id": k, "reason": v} for k, v in sorted(M.NOT_APPLICABLE.items())],
}
json.dump(man, open(os.path.join(HERE, "MANIFEST.json"), "w"), indent=1)
print("wrote MANIFEST.json with", len(checks), "checks")
