"""Registry: property -> harnesses (names, tiers, memory class, timeouts, bounds). Mirrors DESIGN.md §5."""

# harness source file (under /verif/kani) -> rust module path that includes it
MODULE_OF = {
    "group": "term::group",
    "hpoterm": "term::hpoterm",
    "hpotermid": "term::hpotermid",
    "information_content": "term::information_content",
    "internal": "term::internal",
    "ontology": "ontology",
    "builder": "ontology::builder",
    "termarena": "ontology::termarena",
    "comparison": "ontology::comparison",
    "gene": "annotations::gene",
    "disease": "annotations::disease",
    "omim_disease": "annotations::omim_disease",
    "binary": "parser::binary",
    "binary_term": "parser::binary::term",
    "binary_ontology": "parser::binary::ontology",
    "similarity": "similarity",
    "similarity_defaults": "similarity::defaults",
    "matrix": "matrix",
    "set": "set",
    "stats": "stats",
    "statrs": "stats::hypergeom::statrs",
    "hypergeom_gene": "stats::hypergeom::gene",
    "hypergeom_disease": "stats::hypergeom::disease",
    "linkage": "stats::linkage",
    "cluster": "stats::linkage::cluster",
    "utils": "utils",
    "parser": "parser",
    "hp_obo": "parser::hp_obo",
}

_H = {}


def H(pid, file, name, tier="quick", mem="light", tq=300, tt=1800, deep=False, expect="pass",
      bounds="", inputs="", args="", replay="native"):
    _H.setdefault(pid, []).append(dict(
        pid=pid, file=file, name=name, tier=tier, mem=mem, tq=tq, tt=tt, deep=deep, expect=expect,
        bounds=bounds, inputs=inputs, args=args, replay=replay))


def harnesses(pid):
    return list(_H.get(pid, []))


def fq_name(h):
    return "%s::verif_kani::%s" % (MODULE_OF[h["file"]], h["name"])


def file_of(h):
    return h["file"]


PROPERTIES = {}

# ------------------------------------------------------------------------------------------------
# C20
# ------------------------------------------------------------------------------------------------
PROPERTIES["C20"] = dict(
    functions=["HpoTermId::try_from(&str)", "HpoTermId::from_u32/as_u32/to_usize", "From<u16|u32|u64|usize|[u8;4]> for HpoTermId",
               "AnnotationId::to_be_bytes (HpoTermId, GeneId, OmimDiseaseId, OrphaDiseaseId)", "u32_from_bytes"],
    bounds="every valid UTF-8 string of 0..=8 bytes (quick: 0..=6); 'HP:'+7/10/11 symbolic tail bytes; all u32; unwind 10-15",
    stubs=[],
    outside="Display/to_string for symbolic ids (core::fmt padding is out of CBMC reach); strings longer than 14 bytes; "
            "sign-prefixed tails ('+') are only checked for totality",
    assumptions=["input to try_from is a valid &str (from_utf8 succeeded)"],
)
for n in range(0, 7):
    H("C20", "hpotermid", "c20_parse_total_len%d" % n, bounds="all UTF-8 strings of exactly %d bytes" % n,
      inputs="[u8;%d]" % n, tq=600)
for n in (7, 8):
    H("C20", "hpotermid", "c20_parse_total_len%d" % n, tier="thorough", mem="medium", tt=3600,
      bounds="all UTF-8 strings of exactly %d bytes" % n, inputs="[u8;%d]" % n)
H("C20", "hpotermid", "c20_parse_prefixed_tail7", bounds="'HP:' + 7 symbolic bytes", inputs="[u8;7]", tq=600)
H("C20", "hpotermid", "c20_parse_prefixed_tail10", tier="thorough", mem="medium", tt=3600, bounds="'HP:' + 10 symbolic bytes", inputs="[u8;10]")
H("C20", "hpotermid", "c20_parse_prefixed_tail11", tier="thorough", mem="medium", tt=3600, deep=True, bounds="'HP:' + 11 symbolic bytes", inputs="[u8;11]")
H("C20", "hpotermid", "c20_parse_seven_digits_is_value", bounds="all 10^7 seven-digit strings", inputs="7 digits")
H("C20", "hpotermid", "c20_bytes_roundtrip_all_u32", bounds="all u32 / all [u8;4]", inputs="u32, [u8;4], u16, u32")
H("C20", "hpotermid", "c20_annotation_ids_bytes_all_u32", bounds="all u32", inputs="u32")
H("C20", "hpotermid", "c20_twin_must_fail", expect="fail")
