"""Registry: property -> harnesses (names, tiers, memory class, timeouts, bounds). Mirrors DESIGN.md §5."""

# harness source file (under /verif/kani) -> rust module path that includes it
MODULE_OF = {
    "group": "term::group",
    "hpoterm": "term::hpoterm",
    "hpotermid": "term::hpotermid",
    "information_content": "term::information_content",
    "internal": "term::internal",
    "ontology": "ontology",
    "builder": "ontology::builder",
    "termarena": "ontology::termarena",
    "comparison": "ontology::comparison",
    "gene": "annotations::gene",
    "disease": "annotations::disease",
    "omim_disease": "annotations::omim_disease",
    "binary": "parser::binary",
    "binary_term": "parser::binary::term",
    "binary_ontology": "parser::binary::ontology",
    "similarity": "similarity",
    "similarity_defaults": "similarity::defaults",
    "matrix": "matrix",
    "set": "set",
    "stats": "stats",
    "statrs": "stats::hypergeom::statrs",
    "hypergeom_gene": "stats::hypergeom::gene",
    "hypergeom_disease": "stats::hypergeom::disease",
    "linkage": "stats::linkage",
    "cluster": "stats::linkage::cluster",
    "utils": "utils",
    "parser": "parser",
    "hp_obo": "parser::hp_obo",
}

_H = {}
MEASURED_FAST = set(
    ["c05_%s_%s" % (w, d) for w in ("funsimavg", "funsimmax", "bma") for d in ("2x3", "3x2")]
    + ["c08_gene_n1_t1_cut2", "c08_gene_n1_t1_cut4", "c08_gene_n1_t1_ext4", "c08_gene_n2_t2_cut1", "c08_gene_n2_t2_cut4", "c08_gene_n2_t2_ext1",
       "c08_omim_n1_t1_cut4", "c08_omim_n1_t1_ext4", "c08_orpha_n1_t1_cut4", "c08_orpha_n1_t1_ext4",
       "c07_gene_decode_n3_t2", "c07_omim_decode_n2_t2", "c07_omim_decode_n3_t1", "c07_orpha_decode_n2_t2", "c07_orpha_decode_n3_t1",
       "c12_insert_4", "c12_insert_5", "c12_bitor_universe6", "c12_bitand_universe6", "c12_add_single_id",
       "c12_ancestor_union_u3", "c12_ancestor_common_u3",
       "c19_is_modifier_u4", "c19_term_categories_u3",
       "c13_child_nodes_1_3", "c13_child_nodes_all3_k2", "c13_obsolete_2_3", "c13_replace_1_3",
       "c18_annotation_delta_u3", "c10_arena_insert_symbolic_ids"])
# CBMC option that lets symex constant-propagate reads from small heap objects (the arena id table): without it
# the slot number read back from the table is symbolic and every later field access is a symbolic-offset access
FS = "-Z unstable-options --cbmc-args --max-field-sensitivity-array-size 4096"


def H(pid, file, name, tier="quick", mem="light", tq=300, tt=1800, deep=False, expect="pass",
      bounds="", inputs="", args="", replay="native"):
    # Thorough-only harnesses are required (an inconclusive one makes the check exit 2) only if they were
    # measured to finish well inside their timeout on a loaded machine; all others are `deep`: they are
    # attempted, a counterexample is still reported, an inconclusive run is listed in the evidence.
    if tier == "thorough" and name not in MEASURED_FAST:
        deep = True
    if deep:
        tt = min(tt, 1800)  # a deep harness may be inconclusive; it must not hold a thorough run for hours
    _H.setdefault(pid, []).append(dict(
        pid=pid, file=file, name=name, tier=tier, mem=mem, tq=tq, tt=tt, deep=deep, expect=expect,
        bounds=bounds, inputs=inputs, args=args, replay=replay))


def harnesses(pid):
    return list(_H.get(pid, []))


def fq_name(h):
    return "%s::verif_kani::%s" % (MODULE_OF[h["file"]], h["name"])


def file_of(h):
    return h["file"]


PROPERTIES = {}

# ------------------------------------------------------------------------------------------------
# C20
# ------------------------------------------------------------------------------------------------
PROPERTIES["C20"] = dict(
    functions=["HpoTermId::try_from(&str)", "HpoTermId::from_u32/as_u32/to_usize", "From<u16|u32|u64|usize|[u8;4]> for HpoTermId",
               "AnnotationId::to_be_bytes (HpoTermId, GeneId, OmimDiseaseId, OrphaDiseaseId)", "u32_from_bytes"],
    bounds="every valid UTF-8 string of 0..=8 bytes; 'HP:'+7/10/11 symbolic tail bytes (overflow border 4294967295/6); all u32; unwind 10-15",
    stubs=[],
    outside="Display/to_string for symbolic ids (core::fmt padding is out of CBMC reach); strings longer than 14 bytes; "
            "sign-prefixed tails ('+') are only checked for totality",
    assumptions=["input to try_from is a valid &str (from_utf8 succeeded)"],
)
for n in range(0, 7):
    H("C20", "hpotermid", "c20_parse_total_len%d" % n, bounds="all UTF-8 strings of exactly %d bytes" % n,
      inputs="[u8;%d]" % n, tq=600)
for n in (7, 8):
    H("C20", "hpotermid", "c20_parse_total_len%d" % n, mem="medium", tq=900,
      bounds="all UTF-8 strings of exactly %d bytes" % n, inputs="[u8;%d]" % n)
H("C20", "hpotermid", "c20_parse_prefixed_tail7", bounds="'HP:' + 7 symbolic bytes", inputs="[u8;7]", tq=600)
H("C20", "hpotermid", "c20_parse_prefixed_tail10", mem="medium", tq=900, bounds="'HP:' + 10 symbolic bytes", inputs="[u8;10]")
H("C20", "hpotermid", "c20_parse_prefixed_tail11", mem="medium", tq=900, bounds="'HP:' + 11 symbolic bytes", inputs="[u8;11]")
H("C20", "hpotermid", "c20_parse_seven_digits_is_value", bounds="all 10^7 seven-digit strings", inputs="7 digits")
H("C20", "hpotermid", "c20_bytes_roundtrip_all_u32", bounds="all u32 / all [u8;4]", inputs="u32, [u8;4], u16, u32")
H("C20", "hpotermid", "c20_annotation_ids_bytes_all_u32", bounds="all u32", inputs="u32")
H("C20", "hpotermid", "c20_display_border_ids_low", tq=900, mem="medium", bounds="concrete ids 0, 1, 118, 9 999 999 through Display and back (concrete sanity run)")
H("C20", "hpotermid", "c20_display_border_ids_high", tq=900, mem="medium", bounds="concrete ids 10 000 000, 10 000 118, u32::MAX through Display and back (concrete sanity run)")
H("C20", "hpotermid", "c20_twin_must_fail", expect="fail")

# ------------------------------------------------------------------------------------------------
# C12
# ------------------------------------------------------------------------------------------------
PROPERTIES["C12"] = dict(
    functions=["HpoGroup::insert/contains/len/is_empty/get/iter/as_bytes", "From<Vec<HpoTermId>>, From<Vec<u32>>, FromIterator<HpoTermId> for HpoGroup",
               "BitOr/BitAnd for &HpoGroup and owned variants", "BitOr<HpoTermId>, Add<HpoTermId>",
               "HpoTerm::{common,all_common,union,all_union}_ancestor_ids"],
    bounds="<= 5 arbitrary-u32 insertions (plus one inductive insert step from any sorted group of 3/5 ids); operands = all subsets of a "
           "strictly ascending symbolic-u32 universe of 3, 4 or 6 ids; groups never exceed 6 elements (shim capacity); unwind 8-9",
    stubs=[],
    outside="groups with more than 6 elements, in particular smallvec's inline->heap switch at 30 (smallvec's own code, replaced by the shim); From<HashSet>",
    assumptions=["operands of |, & are valid groups (strictly ascending) - the representation invariant established by insert"],
)
for k in (1, 2, 3):
    H("C12", "group", "c12_insert_%d" % k, bounds="%d arbitrary u32 inserts" % k, inputs="[u32;%d], probe u32" % k)
for k in (4, 5):
    H("C12", "group", "c12_insert_%d" % k, tier="thorough", mem="medium", bounds="%d arbitrary u32 inserts" % k, inputs="[u32;%d], probe u32" % k)
H("C12", "group", "c12_insert_step_from_3", bounds="any sorted group of 3 u32 + 1 insert", inputs="[u32;3] ascending, x, probe")
H("C12", "group", "c12_insert_step_from_5", bounds="any sorted group of 5 u32 + 1 insert", inputs="[u32;5] ascending, x, probe")
H("C12", "group", "c12_from_vec_termid_3", bounds="3 arbitrary ids", inputs="[u32;3]")
H("C12", "group", "c12_from_vec_u32_3", bounds="3 arbitrary ids", inputs="[u32;3]")
H("C12", "group", "c12_from_iter_termid_3", bounds="3 arbitrary ids", inputs="[u32;3]")
H("C12", "group", "c12_algebra_universe3", tq=900, bounds="all 8x8 subset pairs of an ascending symbolic universe of 3", inputs="[u32;3], 2 masks")
H("C12", "group", "c12_bitor_universe4", mem="medium", tq=900, bounds="all 16x16 subset pairs, universe of 4", inputs="[u32;4], 2 masks")
H("C12", "group", "c12_bitand_universe4", mem="medium", tq=900, bounds="all 16x16 subset pairs, universe of 4", inputs="[u32;4], 2 masks")
H("C12", "group", "c12_bitor_universe6", tier="thorough", mem="heavy", tt=3600, deep=True, bounds="all 64x64 subset pairs, universe of 6")
H("C12", "group", "c12_bitand_universe6", tier="thorough", mem="heavy", tt=3600, deep=True, bounds="all 64x64 subset pairs, universe of 6")
H("C12", "group", "c12_add_single_id_u3", tq=900, mem="medium", bounds="all subsets of universe 3 + arbitrary u32", inputs="[u32;3], mask, u32")
H("C12", "group", "c12_add_single_id", tier="thorough", mem="medium", tt=3600, bounds="all subsets of universe 4 + arbitrary u32", inputs="[u32;4], mask, u32")
H("C12", "group", "c12_owned_operands", tq=1200, mem="medium", bounds="all subset pairs of universe 3, 4 owned-operand impls")
H("C12", "group", "c12_as_bytes", tq=900, bounds="all subsets of universe 3")
H("C12", "group", "c12_shim_differential_vs_vec", bounds="4 inserts at arbitrary positions + 1 push, shim vs Vec")
H("C12", "group", "c12_twin_must_fail", expect="fail")
for part in ("common", "union"):
    H("C12", "hpoterm", "c12_ancestor_%s_u2" % part, mem="medium", tq=1200, bounds="two terms, own ids any u32, ancestor sets = any subsets of an ascending symbolic universe of 2; probe id any u32")
    H("C12", "hpoterm", "c12_ancestor_%s_u3" % part, tier="thorough", mem="heavy", tt=3600, bounds="same, universe of 3")
    H("C12", "hpoterm", "c12_ancestor_%s_u4" % part, tier="thorough", mem="heavy", tt=5400, deep=True, bounds="same, universe of 4")

# ------------------------------------------------------------------------------------------------
# C10
# ------------------------------------------------------------------------------------------------
PROPERTIES["C10"] = dict(
    functions=["Arena::insert/get/get_mut/get_unchecked/get_unchecked_mut/len/keys/values/iter"],
    bounds="id table of 16 (8) entries instead of 10^7; inserts with symbolic ids < 16 observed through the table; lookup key = any u32 on a table holding ids {0,3,9}; unwind 18",
    stubs=["std::hash::RandomState::new -> fixed keys (term structs own empty HashSets)"],
    outside="the real 10^7-entry table (18 GB in CBMC); gene/disease lookups (std HashMap::get, trusted); gene_by_name / disease name search "
            "(hash-map iteration + substring search)",
    assumptions=["inserted ids are below the id-table size (insert of an id >= table size panics on index: documented limit 10^7)"],
)
H("C10", "termarena", "c10_arena_get_any_key", mem="medium", tq=900, bounds="table 16 holding ids {0,3,9}; key = any u32 < 16 or >= 10^7 (in between the stub table differs from the real 10^7-entry table)", inputs="key u32")
H("C10", "termarena", "c10_arena_insert_one_symbolic_id", mem="heavy", tq=1200, bounds="table 16 holding id 3; insert of a symbolic id < 16", inputs="i2 < 16, j < 16")
H("C10", "termarena", "c10_arena_insert_symbolic_ids", tier="thorough", mem="heavy", tt=3600, bounds="table 16; two inserts with symbolic ids < 16", inputs="i1,i2 < 16, j < 16")
H("C10", "termarena", "c10_arena_iteration", mem="medium", tq=900, bounds="3 concrete inserts; keys/values/iter/len")
H("C10", "termarena", "c10_arena_empty_any_key", bounds="empty arena, key any u32 < 16 or >= 10^7", inputs="key u32")
H("C10", "termarena", "c10_arena_unchecked_agrees", mem="medium", tq=900, bounds="table 8 with 3 terms, symbolic choice of present id", inputs="sel < 3")
H("C10", "termarena", "c10_id_space_constant")
H("C10", "termarena", "c10_twin_must_fail", expect="fail")

# ------------------------------------------------------------------------------------------------
# C19
# ------------------------------------------------------------------------------------------------
PROPERTIES["C19"] = dict(
    functions=["Ontology::set_default_modifier", "Ontology::set_default_categories", "HpoTerm::is_modifier", "HpoTerm::categories", "Ontology::hpo"],
    bounds="direct-state ontology (id table 128 / 16); children(HP:1) = any subset of 4 ids, children(HP:118) = any subset of 3 ids, presence of either root "
           "symbolic; probe term with any ancestor subset of 4 ids and any modifier/category subset of 4 ids; unwind 8",
    stubs=["std::hash::RandomState::new -> fixed keys", "Arena::default() replaced by small_arena (direct construction)"],
    outside="that loaders reach build_with_defaults with a correct ancestor closure (C01/C09 limits); more than 4 top-level branches",
    assumptions=["ancestor sets of the probe term are given (closure correctness is C01)"],
)
H("C19", "ontology", "c19_default_modifier_present", mem="medium", tq=900, args=FS, bounds="children(HP:1) = any subset of {5,6,118,120}; stale modifier group symbolic")
H("C19", "ontology", "c19_default_modifier_absent", mem="medium", tq=900, args=FS, bounds="HP:1 absent (another term present)")
H("C19", "ontology", "c19_default_categories_present", mem="medium", tq=900, args=FS, bounds="children(1) subset of {5,7,118,120}, children(118) subset of {7,9,120}")
H("C19", "ontology", "c19_default_categories_no_root", mem="medium", tq=900, args=FS, bounds="HP:1 absent")
H("C19", "ontology", "c19_default_categories_no_phenotype_root", mem="medium", tq=900, args=FS, bounds="HP:118 absent")
H("C19", "hpoterm", "c19_is_modifier_u3", mem="medium", tq=900, bounds="own id any u32; ancestors, modifier roots = any subsets of an ascending symbolic universe of 3")
H("C19", "hpoterm", "c19_is_modifier_u4", tier="thorough", mem="heavy", tt=3600, deep=True, bounds="same, universe of 4")
H("C19", "hpoterm", "c19_term_categories_u2", mem="medium", tq=900, bounds="own id any u32; ancestors, categories = any subsets of an ascending symbolic universe of 2")
H("C19", "hpoterm", "c19_term_categories_u3", tier="thorough", mem="heavy", tt=3600, deep=True, bounds="same, universe of 3")
H("C19", "ontology", "c19_twin_must_fail", expect="fail", args=FS)

# ------------------------------------------------------------------------------------------------
# C06
# ------------------------------------------------------------------------------------------------
PROPERTIES["C06"] = dict(
    functions=["Hypergeometric::new/min/max/sf", "ln_binomial", "ln_factorial", "FCACHE"],
    bounds="sf: all (N,K,n,x) with K,n <= N <= 6, x <= 7; ln_binomial: n,k <= 255; ln_factorial: x <= u32::MAX; new: all u64; unwind 9 (173 for the table)",
    stubs=["ln_binomial -> recording stub returning an exact code of (n,k) [sf harness]", "f64::exp -> identity model [sf harness]",
           "ln_factorial -> recording stub [ln_binomial harness]", "ln_gamma -> recording stub, f64::ln -> identity model [ln_factorial harness]"],
    outside="every numeric statement: that the sum of exp(...) equals the tail probability, p in [0,1], monotonicity in k, accuracy of the Lanczos "
            "ln_gamma and of the 170/171 switch; calculate_counts / SampleSet over real ontologies (hash maps); the enrichment record assembly",
    assumptions=["structure-only: libm functions are replaced by deterministic models"],
)
H("C06", "statrs", "c06_sf_tail_terms_and_order", replay="solver-only", bounds="all K,n <= N <= 6, x <= 7", inputs="N,K,n,x u64")
H("C06", "statrs", "c06_new_rejects_invalid", bounds="all u64 triples", inputs="N,K,n u64")
H("C06", "statrs", "c06_support_bounds", bounds="N <= u32::MAX", inputs="N,K,n")
H("C06", "statrs", "c06_ln_binomial_structure", replay="solver-only", bounds="n,k <= 255", inputs="n,k u64")
H("C06", "statrs", "c06_ln_factorial_table_switch", replay="solver-only", bounds="x <= u32::MAX", inputs="x u64")
H("C06", "statrs", "c06_factorial_table", bounds="171 concrete entries")
H("C06", "hypergeom_disease", "c06_enrichment_record_wiring", tier="thorough", mem="heavy", tt=5400, deep=True, replay="solver-only",
  bounds="inner_disease_enrichment on two directly built sample sets with one annotation; all k <= n <= N <= 6, k <= K <= N; libm modelled")
H("C06", "statrs", "c06_twin_must_fail", expect="fail")

# ------------------------------------------------------------------------------------------------
# C03
# ------------------------------------------------------------------------------------------------
PROPERTIES["C03"] = dict(
    functions=["InformationContent::set_gene/set_omim_disease/set_orpha_disease (calculate)", "InformationContent::get_kind", "f32_from_usize"],
    bounds="total, current in 0..=64 or one of the borders 65 535 / 65 536; previous field values any finite f32; monotonicity for total <= 64",
    stubs=["f32::ln -> deterministic strictly monotone model x-1 (CBMC's ln is non-deterministic)"],
    outside="the numeric value of libm's ln; the wiring Builder::calculate_information_content -> (record count, per-term set size) "
            "(hash containers); monotonicity across terms (follows from C02, n/a)",
    assumptions=["ln is deterministic and monotone (model)"],
)
H("C03", "information_content", "c03_kernel_gene", replay="solver-only", bounds="total,current in 0..=64 + {65535,65536}", inputs="total,current usize; 3 finite f32")
H("C03", "information_content", "c03_kernel_omim", replay="solver-only", bounds="total,current in 0..=64 + {65535,65536}")
H("C03", "information_content", "c03_kernel_orpha", replay="solver-only", bounds="total,current in 0..=64 + {65535,65536}")
H("C03", "information_content", "c03_monotone_in_current", replay="solver-only", tq=900, mem="medium", bounds="total <= 64, 1 <= c1 <= c2 <= total")
H("C03", "information_content", "c03_get_kind_dispatch", bounds="all non-NaN f32 triples")
H("C03", "builder", "c03_wiring_counts_per_kind", tier="thorough", mem="heavy", tt=5400, deep=True, args=FS, replay="solver-only",
  bounds="Builder::calculate_information_content on 1 term; record maps of sizes (1,0,2) and per-term sets (1,0,1) with concrete keys")
H("C03", "information_content", "c03_twin_must_fail", expect="fail")

# ------------------------------------------------------------------------------------------------
# C05
# ------------------------------------------------------------------------------------------------
PROPERTIES["C05"] = dict(
    functions=["Matrix::new/rows/cols/dim/len/is_empty", "SimilarityCombiner::calculate/row_maxes/col_maxes/dim_f32", "StandardCombiner::fun_sim_avg/fun_sim_max/bma"],
    bounds="matrix dimensions (r,c) in {1,2,3}^2 as separate instances; entries on the grid k/8: k in 0..=127 for all nine dimensions, k any i8 (negative values) for 1x2/2x1 (2x2 thorough) (combiners) / any u8 or f32 (views); unwind 5-6",
    stubs=[],
    outside="entries off the k/8 grid (full-range f32 is a genuine FP-equivalence query, > 12 min at 2x3); matrices larger than 3x3; "
            "GroupSimilarity over HpoSets and CachedSimilarity (arena iteration / hash map) unless listed in harnesses",
    assumptions=["similarity values lie on the grid k/8, -16 <= value < 16"],
)
for d in ("1x1", "1x3", "3x1", "2x2", "2x3", "3x2", "3x3"):
    H("C05", "matrix", "c05_matrix_views_" + d, bounds="dimension %s, entries any u8" % d)
H("C05", "matrix", "c05_matrix_views_f32_2x3", bounds="2x3, entries any f32 bit pattern")
H("C05", "matrix", "c05_matrix_twin_must_fail", expect="fail")
for w in ("funsimavg", "funsimmax", "bma"):
    for d in ("1x2", "2x1", "2x2"):
        H("C05", "similarity", "c05_%s_%s" % (w, d), tq=600, bounds="%s, entries k/8" % d, inputs="[u8;%d]" % eval(d.replace("x", "*")))
    for d in ("2x3", "3x2", "3x3"):
        H("C05", "similarity", "c05_%s_%s" % (w, d), tier="thorough", mem="medium", tt=3600, deep=(d == "3x3"), bounds="%s, entries k/8" % d)
for n in ("funsimavg_1x2", "funsimmax_2x1", "bma_2x1"):
    H("C05", "similarity", "c05_signed_" + n, tq=900, mem="medium", bounds=n + ", entries k/8 with k any i8 (negative similarities included)")
for n in ("bma_2x2", "funsimavg_2x2", "funsimmax_2x2"):
    H("C05", "similarity", "c05_signed_" + n, tier="thorough", mem="medium", tt=3600, deep=True, bounds=n + ", entries k/8 with k any i8")
H("C05", "similarity", "c05_empty_matrix_is_zero", bounds="0xN / Nx0, N <= 3")
H("C05", "similarity", "c05_cached_similarity_is_transparent", tier="thorough", mem="heavy", tt=5400, deep=True,
  bounds="CachedSimilarity over an asymmetric user similarity with symbolic values; 4 lookups on 2 terms (3 hash-map inserts with concrete keys)")
H("C05", "similarity", "c05_twin_must_fail", expect="fail")

# ------------------------------------------------------------------------------------------------
# C17
# ------------------------------------------------------------------------------------------------
PROPERTIES["C17"] = dict(
    functions=["utils::Combinations::new/next/set_to_last", "Linkage::size_of_cluster", "Linkage::indicies", "ClusterVec::push/get/iter", "Cluster::new/lhs/rhs/len"],
    bounds="Combinations over 0..=4 slots (quick <= 3): ONE next() call from every concrete cursor position reachable from new()/set_to_last(), "
           "dead/live pattern symbolic (one-step induction; whole enumerations with a symbolic pattern explode: 3 recursive call sites per level); "
           "Linkage bookkeeping on directly built dendrograms over 3-4 inputs",
    stubs=["std::hash::RandomState::new -> fixed keys (empty distance matrix)"],
    outside="Linkage::{single,complete,average,union} merge loops (HashMap<(usize,usize),f32> with insert/retain/iter: out of reach beyond "
            "capped attempts); n >= 5; ties between distances",
    assumptions=[],
)
for n in (0, 1, 2, 3):
    H("C17", "utils", "c17_combinations_steps_len%d" % n, tq=900, mem="medium", bounds="%d slots, any dead/live pattern, one next() from every cursor reachable from new()" % n, inputs="[bool;%d]" % n)
H("C17", "utils", "c17_combinations_steps_len4", tier="thorough", mem="heavy", tt=3600, deep=True, bounds="4 slots, any dead/live pattern, every cursor")
for n in (1, 2, 3):
    H("C17", "utils", "c17_last_row_steps_len%d" % n, tq=900, mem="medium", bounds="%d slots, any pattern, one next() from every cursor reachable after set_to_last()" % n, inputs="[bool;%d]" % n)
H("C17", "utils", "c17_last_row_steps_len4", tier="thorough", mem="medium", tt=3600, deep=True, bounds="4 slots after set_to_last")
H("C17", "utils", "c17_combinations_whole_len1", bounds="1 slot, whole enumeration")
H("C17", "utils", "c17_exhausted_stays_exhausted", bounds="3 slots any content, any cursor with idx1 in 3..1000")
H("C17", "linkage", "c17_size_of_cluster", bounds="4 inputs, 2 recorded merges with symbolic sizes; any index pair < 6")
H("C17", "linkage", "c17_indicies_leaf_order", bounds="all dendrograms over 3 inputs")
H("C17", "utils", "c17_twin_must_fail", expect="fail")

# ------------------------------------------------------------------------------------------------
# C07 / C08 (record level, against the documented layout)
# ------------------------------------------------------------------------------------------------
REC_OUT = ("Ontology::as_bytes / from_bytes as a whole (section assembly over hash-map iteration, builder replay, information-content recomputation); "
           "names > 3 bytes except the 255-byte cap probe; records with > 2 terms; categories/modifiers after load")
PROPERTIES["C07"] = dict(
    prefixes=["c07_"],
    functions=["Gene::as_bytes / Gene::try_from(&[u8])", "OmimDisease::as_bytes (own impl) / Disease::as_bytes (trait default via OrphaDisease) / Disease::from_bytes",
               "HpoTermInternal::as_bytes / parents_as_byte", "from_bytes_v2 via HpoTermInternal::try_from(Bytes)", "Ontology::metadata_as_bytes", "HpoGroup::as_bytes"],
    bounds="record shapes: name length in {0,1,2,3} bytes, 0..2 terms (concrete per instance); every content byte / id / flag symbolic; "
           "encoder and decoder are each compared with the documented byte layout (a round trip inside one harness is out of reach: DESIGN §1)",
    stubs=["std::hash::RandomState::new -> fixed keys (term structs own empty HashSets)"],
    outside=REC_OUT,
    assumptions=["names handed to the encoder are valid UTF-8 (&str)", "term ids of one record are distinct (sets)"],
)
for d in ("n0_t0", "n1_t1", "n3_t0", "n2_t2"):
    H("C07", "gene", "c07_gene_decode_" + d, tq=600, bounds="gene record shape " + d, inputs="all content bytes")
for d in ("n0_t0", "n1_t1", "n3_t0"):
    H("C07", "gene", "c07_gene_encode_" + d, tq=900, mem="medium", bounds="gene record shape " + d)
H("C07", "gene", "c07_gene_encode_n2_t2", tier="thorough", mem="heavy", tt=3600, deep=True, bounds="gene record shape n2_t2 (18M SAT variables: > 26 GB)")
H("C07", "gene", "c07_gene_decode_n3_t2", tier="thorough", tt=1800, bounds="gene record shape n3_t2")
H("C07", "gene", "c07_gene_encode_n3_t2", tier="thorough", mem="heavy", tt=3600, deep=True, bounds="gene record shape n3_t2")
for k in ("omim", "orpha"):
    for d in ("n0_t0", "n1_t1"):
        H("C07", "disease", "c07_%s_decode_%s" % (k, d), tq=600, bounds="%s disease record shape %s" % (k, d))
        H("C07", "disease", "c07_%s_encode_%s" % (k, d), tq=600, bounds="%s disease record shape %s" % (k, d))
    for d in ("n2_t2", "n3_t1"):
        H("C07", "disease", "c07_%s_decode_%s" % (k, d), tier="thorough", tt=1800, bounds="%s disease record shape %s" % (k, d))
    H("C07", "disease", "c07_%s_encode_n3_t2" % k, tier="thorough", tt=1800, bounds="%s disease record shape n3_t2" % k)
H("C07", "binary_term", "c07_term_decode_v2_n0", tq=600, bounds="v2 term record, empty name")
H("C07", "binary_term", "c07_term_decode_v2_n1", tq=600, bounds="v2 term record, 1-byte name")
H("C07", "binary_term", "c07_term_decode_v3_n3", tq=900, mem="medium", bounds="v3 term record, 3-byte name")
for n in (0, 1, 3):
    H("C07", "internal", "c07_term_encode_n%d" % n, tq=900, mem="heavy", bounds="term record, %d-byte name; id, obsolete, replacement symbolic" % n)
H("C07", "internal", "c07_term_parents_encode", tq=600, bounds="0..2 parents, ids symbolic")
H("C07", "ontology", "c07_file_header_encode", bounds="all release dates (u16,u8,u8)")
H("C07", "ontology", "c07_empty_ontology_has_five_sections", tq=900, mem="medium", bounds="Ontology::as_bytes on an ontology without terms/annotations; release year symbolic")
H("C07", "gene", "c07_gene_encode_n2_t0", tq=900, mem="medium", bounds="gene record shape n2_t0 (2-byte name: multi-byte character possible)")
H("C07", "disease", "c07_omim_encode_n2_t0", tq=900, mem="medium", bounds="omim disease record shape n2_t0")
H("C07", "disease", "c07_orpha_encode_n2_t0", tq=900, mem="medium", bounds="orpha disease record shape n2_t0")
H("C07", "disease", "c07_omim_encode_multibyte_name", tq=900, mem="medium", bounds="omim record, fixed 2-byte name, id and term symbolic")
H("C07", "disease", "c07_orpha_encode_multibyte_name", tq=900, mem="medium", bounds="orpha record, fixed 2-byte name, id and term symbolic")
H("C07", "gene", "c07_gene_name_cap_utf8", tier="thorough", mem="heavy", tt=3600, deep=True, bounds="258-byte name, symbolic 1-3-byte character at the 255-byte cut")
H("C07", "internal", "c07_term_name_cap_utf8", tier="thorough", mem="heavy", tt=3600, deep=True, bounds="258-byte name, symbolic 1-3-byte character at the 255-byte cut")
H("C07", "gene", "c07_gene_name_cap_boundary", tier="thorough", mem="heavy", tt=3600, deep=True, bounds="258-byte name, symbolic 1-3-byte character at the 255-byte cut; cut position must be a char boundary")
H("C07", "gene", "c07_gene_twin_must_fail", expect="fail")
H("C07", "disease", "c07_disease_twin_must_fail", expect="fail")

PROPERTIES["C08"] = dict(
    prefixes=["c08_", "c07_"],
    functions=["parser::binary::ontology::version", "BinaryVersion::try_from(u8) / Ord", "Builder::hpo_version_from_bytes", "from_bytes_v1 / from_bytes_v2",
               "Gene::try_from / Disease::from_bytes on truncated, extended and mis-announced records", "BinaryTermBuilder::next", "Bytes::u32_prefix/subset"],
    bounds="header: every byte string of 0,4,5,8 bytes; version byte: all 256 values; records: shapes as in C07, EVERY prefix length 0..L-1 and the "
           "extensions L+1..L+4, total-length field any u32, n_terms field any u32",
    stubs=["std::hash::RandomState::new -> fixed keys"],
    outside="the section walk of Ontology::from_bytes itself (offset arithmetic interleaved with the full builder pipeline), hence 'every truncation offset of a "
            "whole file' and record-order independence across whole loads; add_*_from_bytes section loops (hash-set inserts)",
    assumptions=["documented panics of BinaryTermBuilder count as rejection"],
)
for n in (0, 4, 5, 8):
    H("C08", "binary_ontology", "c08_header_len%d" % n, bounds="every byte string of %d bytes" % n, inputs="[u8;%d]" % n)
H("C08", "binary", "c08_binary_version_enum", bounds="all 256 x 256 version byte pairs")
H("C08", "binary", "c08_bytes_u32_prefix", bounds="all 6-byte strings")
H("C08", "builder", "c08_release_date_header", bounds="versions 1..3, payload length 0..6, all byte contents")
H("C08", "binary_term", "c08_term_decode_v1_n0", tq=600, bounds="v1 term record, empty name")
H("C08", "binary_term", "c08_term_decode_v1_n2", tq=600, bounds="v1 term record, 2-byte name")
H("C08", "binary_term", "c07_term_decode_v2_n1", tq=600, bounds="v2 term record, 1-byte name")
H("C08", "binary_term", "c08_term_truncated_v2_n2", tq=900, mem="medium", bounds="v2 term record announcing a 2-byte name, every prefix 0..15 bytes")
H("C08", "binary_term", "c08_term_truncated_v1_n2", tq=900, mem="medium", bounds="v1 term record announcing 11 bytes, every prefix 0..10")
H("C08", "binary", "c08_term_section_two_records", tq=900, mem="medium", bounds="two concatenated v2 term records (name lengths 1, 0)")
H("C08", "gene", "c08_gene_wrong_length_n0_t0", tq=900, mem="medium", bounds="gene record n0_t0: all slice lengths 0..17 except 13; total field any u32")
for c in ("cut1", "ext1"):
    H("C08", "gene", "c08_gene_n1_t1_" + c, tq=600, bounds="gene record n1_t1, slice length %s, total field any u32" % c)
for c in ("cut2", "cut4", "ext4"):
    H("C08", "gene", "c08_gene_n1_t1_" + c, tier="thorough", tt=1800, bounds="gene record n1_t1, slice length %s, total field any u32" % c)
for c in ("cut1", "cut4", "ext1"):
    H("C08", "gene", "c08_gene_n2_t2_" + c, tier="thorough", tt=1800, mem="medium", bounds="gene record n2_t2, slice length %s, total field any u32" % c)
H("C08", "gene", "c08_gene_nterms_field_symbolic", tq=900, mem="medium", bounds="gene record with room for 2 terms, n_terms field any u32")
H("C08", "gene", "c07_gene_decode_n1_t1", tq=600, bounds="gene record shape n1_t1")
for k in ("omim", "orpha"):
    for c in ("cut1", "ext1"):
        H("C08", "disease", "c08_%s_n1_t1_%s" % (k, c), tq=600, bounds="%s record n1_t1, slice length %s, total field any u32" % (k, c))
    for c in ("cut4", "ext4"):
        H("C08", "disease", "c08_%s_n1_t1_%s" % (k, c), tier="thorough", tt=1800, bounds="%s record n1_t1, slice length %s, total field any u32" % (k, c))
H("C08", "disease", "c08_omim_wrong_length_n0_t0", tq=900, mem="medium", bounds="omim record n0_t0: all slice lengths 0..20 except 16; total field any u32")
H("C08", "disease", "c08_orpha_wrong_length_n0_t0", tq=900, mem="medium", bounds="orpha record n0_t0: all slice lengths 0..20 except 16; total field any u32")
H("C08", "disease", "c07_omim_decode_n1_t1", tq=600, bounds="omim record shape n1_t1")
H("C08", "binary_ontology", "c08_header_twin_must_fail", expect="fail")
H("C08", "binary_term", "c08_term_twin_must_fail", expect="fail")

# ------------------------------------------------------------------------------------------------
# C18
# ------------------------------------------------------------------------------------------------
PROPERTIES["C18"] = dict(
    functions=["AnnotationDelta::delta / added_terms / removed_terms / changed_name / n_terms"],
    bounds="two term sets = any subsets of an ascending symbolic-u32 universe of 2 (quick) / 3 (thorough); names chosen from {a,b}; unwind 5-6",
    stubs=[],
    outside="added_* / removed_* / changed_* enumeration over the two ontologies' hash maps and arenas; HpoTermDelta::new (builds two HashSet<HpoTermId>); "
            "AnnotationDelta::gene/::disease wrappers (id.to_string() -> core::fmt); comparison with the binary round trip; dangling replacement targets (D8)",
    assumptions=["term groups are valid (sorted) groups"],
)
H("C18", "comparison", "c18_annotation_delta_u2", tq=1800, mem="medium", bounds="universe of 2 ids, names in {a,b}")
H("C18", "comparison", "c18_annotation_delta_swap", tq=1800, mem="medium", bounds="universe of 2 ids, different sets, swapped arguments")
H("C18", "comparison", "c18_annotation_delta_u3", tier="thorough", mem="heavy", tt=3600, bounds="universe of 3 ids, names in {a,b}")
H("C18", "comparison", "c18_twin_must_fail", expect="fail")

# ------------------------------------------------------------------------------------------------
# C15
# ------------------------------------------------------------------------------------------------
PROPERTIES["C15"] = dict(
    functions=["Builder<AllTerms>::add_parent", "Builder<ConnectedTerms>::annotate_gene / annotate_omim_disease / annotate_orpha_disease (add_*, link_*_term)"],
    bounds="builder with 2 terms (add_parent) / 1 term (annotate); presence of the referenced ids per instance (concrete), pre-existing relation groups = any "
           "subsets of 3 candidate ids; record maps empty before the call; unwind 6",
    stubs=["std::hash::RandomState::new -> fixed keys", "Arena::default() replaced by a directly built small arena"],
    outside="arbitrary interleavings of many calls (one call from a symbolic pre-state per harness); 'no accessor of the read API panics' on a built ontology; "
            "annotate_* on terms with ancestors (recursive link over hash sets)",
    assumptions=["one-step: the pre-state is a builder as earlier successful calls leave it"],
)
H("C15", "builder", "c15_add_parent_both_present", mem="medium", tq=900, args=FS, bounds="parent and child present; pre-state groups any subsets")
H("C15", "builder", "c15_add_parent_child_absent", mem="medium", tq=900, args=FS, bounds="parent present, child id absent")
H("C15", "builder", "c15_add_parent_parent_absent", mem="medium", tq=900, args=FS, bounds="parent id absent, child present")
H("C15", "builder", "c15_add_parent_both_absent", mem="medium", tq=900, args=FS, bounds="both ids absent")
H("C15", "builder", "c15_annotate_gene_present", mem="heavy", tq=1500, args=FS, bounds="annotate_gene on a present term, empty maps")
H("C15", "builder", "c15_annotate_gene_absent", tier="thorough", mem="heavy", tt=3600, deep=True, args=FS, bounds="annotate_gene on an absent term id")
H("C15", "builder", "c15_annotate_omim_absent", tier="thorough", mem="heavy", tt=3600, deep=True, args=FS, bounds="annotate_omim_disease on an absent term id")
H("C15", "builder", "c15_annotate_orpha_absent", tier="thorough", mem="heavy", tt=3600, deep=True, args=FS, bounds="annotate_orpha_disease on an absent term id")
H("C15", "builder", "c15_annotate_orpha_present", tier="thorough", mem="heavy", tt=3600, args=FS, bounds="annotate_orpha_disease on a present term")
for k in ("gene", "omim", "orpha"):
    H("C15", "builder", "c15_annotate_%s_beyond_table" % k, tier="thorough", mem="heavy", tt=1800, deep=True, args=FS, bounds="annotate_%s with a term id beyond the id table (the analogue of an id >= 10^7), empty maps" % k)
H("C15", "builder", "c15_twin_must_fail", expect="fail", args=FS)

# ------------------------------------------------------------------------------------------------
# C01
# ------------------------------------------------------------------------------------------------
PROPERTIES["C01"] = dict(
    functions=["Builder::add_parent / add_parent_unchecked", "Builder::create_cache_of_grandparents / all_grandparents (one step, and one recursive level)",
               "HpoTermInternal::parents_cached / add_parent / add_child", "HpoTerm::child_of / parent_of / parent_ids / all_parent_ids / children_ids"],
    bounds="3 directly inserted terms with concrete ids; parents(t) per instance in {{}, {2}, {1,2}}; the parents' ancestor sets have 0..2 members with arbitrary u32 ids; "
           "accessors: ancestors/parents/children any subsets of an ascending symbolic universe of 4, own ids any u32; unwind 6-8",
    stubs=["std::hash::RandomState::new -> fixed keys", "Arena::default() replaced by a directly built small arena"],
    outside="that the memoised mutual recursion of connect_all_terms composes the steps correctly for every DAG shape and insertion order (3 terms with symbolic edges: "
            "> 48 min); the obo / binary / sub_ontology paths into the builder. A change of the recursion ORDER that keeps each single step correct is not detected.",
    assumptions=["one-step: the parents of the processed term are already cached (or, in the chain harness, one level is not)"],
)
H("C01", "builder", "c01_add_parent_unchecked", mem="medium", tq=900, args=FS, bounds="both terms present; pre-state groups any subsets of 3 ids")
H("C01", "builder", "c01_add_parent_inverse_relation", mem="medium", tq=900, args=FS, bounds="add_parent on present terms: child list and parent list change together")
H("C01", "builder", "c01_cache_step_two_parents_1_1", mem="heavy", tq=1500, args=FS, bounds="t with parents {1,2}; 1 and 2 have one ancestor each, ids any u32 (equal = diamond)")
H("C01", "builder", "c01_cache_step_two_parents_2_2", mem="heavy", tq=1500, args=FS, bounds="t with parents {1,2}; 1 and 2 have two ancestors each, ids any u32")
H("C01", "builder", "c01_cache_step_two_parents_2_0", mem="heavy", tq=1500, args=FS, bounds="t with parents {1,2}; 1 has two ancestors, 2 is a root")
H("C01", "builder", "c01_cache_step_second_parent_only", mem="heavy", tq=1500, args=FS, bounds="t with parent {2} only (term 1 present but unrelated), 2 ancestors each")
H("C01", "builder", "c01_cache_step_root", mem="medium", tq=900, args=FS, bounds="t without parents")
H("C01", "builder", "c01_cache_step_recursive_chain", mem="heavy", tq=1500, args=FS, bounds="chain 1 <- 2 <- 3 with 2 not cached; ancestors(1) = two arbitrary ids")
H("C01", "internal", "c01_parents_cached_truth_table", bounds="parents, ancestors any subsets of 2 ids")
H("C01", "internal", "c01_term_add_parent_add_child", bounds="any two u32 ids")
H("C01", "hpoterm", "c01_accessors_answer_from_closure", mem="medium", tq=900, bounds="ancestors/parents/children any subsets of an ascending symbolic universe of 4; own and probe ids any u32")
H("C01", "builder", "c01_twin_must_fail", expect="fail", args=FS)

# ------------------------------------------------------------------------------------------------
# C04
# ------------------------------------------------------------------------------------------------
PROPERTIES["C04"] = dict(
    functions=["Resnik/Lin/Jc/Relevance/InformationCoefficient/GraphIc/Mutation ::calculate", "Builtins::calculate (dispatch)",
               "HpoTerm::all_common_ancestors / all_union_ancestors / information_content", "term::Iter::next (arena lookups)"],
    bounds="one fixed 4-term ontology (root <- inner <- two siblings), pairs per instance (siblings, descendant/ancestor, identical, descendant/root); information contents of all "
           "four terms symbolic on the grid k/8, k <= 128 (129^4 combinations) with the C03 monotonicity assumed; kind per instance; unwind 7",
    stubs=["f32::exp -> deterministic monotone model x+1 (Relevance only)", "std::hash::RandomState::new -> fixed keys"],
    outside="Distance (recursive distance_to_term over the arena); Mutation with non-empty annotation sets (hash-set algebra); other DAG shapes; "
            "GraphIC's denominator is accepted with or without the two terms themselves (the documentation does not fix it)",
    assumptions=["information contents are finite, in [0,16] (ln 65535 < 16) and non-decreasing from ancestor to descendant (C03)"],
)
C04Q = ["c04_resnik_siblings_gene", "c04_lin_siblings_gene", "c04_jc_siblings_gene", "c04_jc_self_omim", "c04_graphic_siblings_gene", "c04_mutation_distinct_gene", "c04_mutation_distinct_omim", "c04_mutation_self_gene"]
C04T = ["c04_resnik_desc_anc_omim", "c04_lin_self_orpha", "c04_jc_desc_root_orpha", "c04_relevance_siblings_omim", "c04_infocoeff_siblings_gene",
        "c04_infocoeff_desc_anc_orpha", "c04_graphic_desc_anc_omim", "c04_graphic_self_gene", "c04_mutation_distinct_orpha", "c04_builtins_dispatch_resnik_lin"]
for n in C04Q:
    H("C04", "similarity_defaults", n, mem="heavy", tq=1500, args=FS, replay=("native" if "mutation" in n else "native"), bounds=n[4:])
for n in C04T:
    H("C04", "similarity_defaults", n, tier="thorough", mem="heavy", tt=3600, args=FS, bounds=n[4:])
H("C04", "similarity_defaults", "c04_twin_must_fail", expect="fail", args=FS)

# ------------------------------------------------------------------------------------------------
# C13
# ------------------------------------------------------------------------------------------------
PROPERTIES["C13"] = dict(
    functions=["HpoSet::child_nodes", "without_obsolete / remove_obsolete", "with_replaced_obsolete / replace_obsolete", "without_modifier / remove_modifier",
               "len / is_empty / contains / get / iter"],
    bounds="direct-state ontology with terms 1,2,3; member sets per instance ({1,2,3}, two 2-element sets); symbolic: the ids of every ancestor (1-2 per term, any u32), "
           "obsolete flags, replacement presence and id (any u32), modifier root ids (1-2, any u32); unwind 6",
    stubs=["std::hash::RandomState::new -> fixed keys", "Arena::default() replaced by a directly built small arena"],
    outside="gene_ids / omim_disease_ids / orpha_disease_ids, categories() (HashMap) and information_content() - all hash-container aggregates; sets with more than 3 members; "
            "symbolic membership (iterating a set with symbolic members means symbolic arena indices)",
    assumptions=["every member id resolves in the ontology (documented precondition of HpoSet)"],
)
H("C13", "set", "c13_child_nodes_all3", mem="heavy", tq=1500, args=FS, bounds="members {1,2,3}; every term has 1 ancestor with an arbitrary u32 id")
H("C13", "set", "c13_child_nodes_all3_k2", tier="thorough", mem="heavy", tt=3600, deep=True, args=FS, bounds="members {1,2,3}; 2 ancestors each, arbitrary ids")
H("C13", "set", "c13_child_nodes_1_3", tier="thorough", mem="heavy", tt=3600, args=FS, bounds="members {1,3}; 2 ancestors each, arbitrary ids")
H("C13", "set", "c13_obsolete_all3", mem="heavy", tq=1500, args=FS, bounds="members {1,2,3}; obsolete flags symbolic")
H("C13", "set", "c13_obsolete_2_3", tier="thorough", mem="heavy", tt=3600, args=FS, bounds="members {2,3}")
H("C13", "set", "c13_replace_all3", mem="heavy", tq=1500, args=FS, bounds="members {1,2,3}; replacement presence and ids (any u32) symbolic")
H("C13", "set", "c13_replace_1_3", tier="thorough", mem="heavy", tt=3600, args=FS, bounds="members {1,3}")
H("C13", "set", "c13_modifier_all3", tier="thorough", mem="heavy", tt=5400, deep=True, args=FS, bounds="members {1,2,3}; 1 ancestor each and 1 modifier root, arbitrary u32 ids")
H("C13", "set", "c13_modifier_1_2", tier="thorough", mem="heavy", tt=5400, deep=True, args=FS, bounds="members {1,2}; 1 ancestor each, 1 root, arbitrary u32 ids; without_modifier only (8.5M SAT variables, ~20 min)")
H("C13", "set", "c13_accessors", mem="medium", tq=900, args=FS, bounds="members {1,3}; probe id any u32")
H("C13", "set", "c13_twin_must_fail", expect="fail", args=FS)
