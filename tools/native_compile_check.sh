#!/bin/bash
# compiles all harness files natively (cfg(kani), REAL smallvec/tracing) the way a replay does: catches
# harness code that only compiles under the shims (e.g. format-string braces in assert messages)
set -e
S=$(mktemp -d /var/tmp/hpo-native.XXXXXX)
trap 'rm -rf $S' EXIT
rsync -a --exclude /target --exclude /.git /repo/ $S/
mkdir -p $S/.cargo; printf '[net]\noffline = true\n' > $S/.cargo/config.toml
cd $S && CARGO_NET_OFFLINE=true cargo kani playback -Z concrete-playback --only-codegen 2>&1 | grep -E "^error|Finished|could not" | head -20
