#!/bin/bash
# usage: seed_eval.sh <PROPERTY> <mutant_out_dir> <demo_dest> [tier]
# 1. confirms the seeded change independently (seed_confirm.sh)
# 2. runs /verif/check <PROPERTY> against a scratch worktree of /repo with the patch applied
#    (VERIF_REPO / VERIF_OUT keep /repo and /verif/evidence untouched)
set -u
PID=$1; OUT=$2; DEST=$3; TIER=${4:-quick}
HERE=$(cd "$(dirname "$0")/.." && pwd)
echo "##### $PID $OUT"
$HERE/tools/seed_confirm.sh $OUT $DEST
W=/tmp/seedrepo_$$
git -C /repo worktree add -q --detach $W HEAD || exit 3
trap 'git -C /repo worktree remove --force $W >/dev/null 2>&1; rm -rf $W /tmp/seedout_$$' EXIT
git -C $W apply $OUT/patch.diff || exit 3
VERIF_REPO=$W VERIF_OUT=/tmp/seedout_$$ $HERE/check $PID --tier $TIER > /tmp/seedout_$$.log 2>&1
rc=$?
echo "== check $PID --tier $TIER rc=$rc"
grep -E "VIOLATION|KNOWN-FINDING|INFRA|FAILED" /tmp/seedout_$$.log | head -12
mkdir -p /tmp/seedlogs; cp /tmp/seedout_$$.log /tmp/seedlogs/$(echo $OUT | tr '/' '_').log
if [ -d /tmp/seedout_$$/replays ]; then mkdir -p /tmp/seedlogs/replays_$(echo $OUT | tr '/' '_'); cp -r /tmp/seedout_$$/replays/* /tmp/seedlogs/replays_$(echo $OUT | tr '/' '_')/; fi
rm -f /tmp/seedout_$$.log
