#!/bin/bash
# runs every registered check of a tier on /repo as it is, sequentially; prints rc and wall time per property
cd "$(dirname "$0")/.."
TIER=${1:-quick}
for pid in $(python3 -c "import json;print(' '.join(c['property_id'] for c in json.load(open('MANIFEST.json'))['checks']))"); do
  t0=$(date +%s)
  ./check $pid --tier $TIER > /tmp/runall_$pid.log 2>&1
  rc=$?
  echo "$pid rc=$rc wall=$(( $(date +%s) - t0 ))s $(grep -c SUCCESSFUL /tmp/runall_$pid.log) ok $(grep -E 'VIOLATION|INFRA' /tmp/runall_$pid.log | head -3 | tr '\n' ' ')"
done
