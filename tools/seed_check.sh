#!/bin/bash
# usage: seed_check.sh <PROPERTY> <patch.diff> [extra check args...]
# runs /verif/check against a scratch worktree of /repo HEAD with the patch applied; /repo and /verif/evidence stay untouched
PID=$1; PATCH=$(readlink -f $2); shift 2
HERE=$(cd "$(dirname "$0")/.." && pwd)
W=/tmp/seedrepo_$$
git -C /repo worktree add -q --detach $W HEAD || exit 3
trap 'git -C /repo worktree remove --force $W >/dev/null 2>&1; rm -rf $W /tmp/seedout_$$' EXIT
git -C $W apply $PATCH || { echo "patch does not apply"; exit 3; }
VERIF_REPO=$W VERIF_OUT=/tmp/seedout_$$ $HERE/check $PID "$@"
rc=$?
echo "seed_check rc=$rc"
exit $rc
