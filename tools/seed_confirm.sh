#!/bin/bash
# usage: seed_confirm.sh <out_dir_of_mutant> <demo_dest_relative_path>
# Confirms a candidate seeded change independently: (1) patch applies, (2) existing suite passes with it,
# (3) the demonstration fails with it and (4) passes without it. Uses a scratch worktree that is removed afterwards.
set -u
OUT=$1; DEMO_DEST=${2:-tests/demo_seed.rs}
W=/tmp/sv_$$
export CARGO_NET_OFFLINE=true
git -C /repo worktree add -q --detach $W HEAD || exit 3
trap 'git -C /repo worktree remove --force $W >/dev/null 2>&1; rm -rf $W' EXIT
cd $W
T=$W/target
place_demo() {
  if [[ $DEMO_DEST == append:* ]]; then cat $OUT/demo.rs >> ${DEMO_DEST#append:}; else cp $OUT/demo.rs $DEMO_DEST; fi
}
place_demo 2>/dev/null || { echo "no demo.rs"; exit 3; }
name=$(basename $DEMO_DEST .rs)
if [[ $DEMO_DEST == tests/* ]]; then DEMOCMD="cargo test --offline --target-dir $T --test $name"; else DEMOCMD="cargo test --offline --target-dir $T --lib demo_seed"; fi
echo "== demo WITHOUT patch"; $DEMOCMD 2>&1 | grep -E "^test result|error(\[|:)" | head -5
if [[ $DEMO_DEST == append:* ]]; then git checkout -q -- .; fi
git apply $OUT/patch.diff || { echo "PATCH DOES NOT APPLY"; exit 3; }
if [[ $DEMO_DEST == append:* ]]; then place_demo; fi
echo "== demo WITH patch"; $DEMOCMD 2>&1 | grep -E "^test result|error(\[|:)" | head -5
[[ $DEMO_DEST == append:* ]] || rm -f $DEMO_DEST; git checkout -q -- . ; git apply $OUT/patch.diff
echo "== existing suite WITH patch"; cargo test --offline --target-dir $T --no-fail-fast 2>&1 | grep -E "^test result|error(\[|:)" | head -5
