#!/bin/bash
# Offline setup: nothing to download; verify the tools and warm nothing outside scratch dirs.
set -e
cd "$(dirname "$0")"
export CARGO_NET_OFFLINE=true
cargo kani --version
cbmc --version
python3 -c "import json; json.load(open('MANIFEST.json'))"
mkdir -p evidence replays
chmod +x check
echo setup ok
